//! Native replay of solver counterexamples and translator-validation vectors against the real crates.
//! Line protocol on stdin: `<cmd> <args...>`; floats are passed as hex bit patterns. One JSON line per case.
use mina_core::time_scale::{TimeScale, TimeScalePosition};
use mina_core::timeline::Repeat;
use std::io::{self, BufRead};
use std::panic;

fn f(s: &str) -> f32 { f32::from_bits(u32::from_str_radix(s.trim_start_matches("0x"), 16).unwrap()) }
fn rep(s: &str) -> Repeat {
    match s { "none" => Repeat::None, "inf" => Repeat::Infinite, n => Repeat::Times(n.parse().unwrap()) }
}

fn get_str(v: &serde_lite::Value, k: &str) -> String { v.get(k).to_string() }

mod serde_lite {
    //! minimal JSON object reader: flat objects with string / number / array-of-scalar values
    use std::collections::HashMap;
    pub struct Value(pub HashMap<String, String>);
    impl Value {
        pub fn get(&self, k: &str) -> &str { self.0.get(k).map(|s| s.as_str()).unwrap_or("") }
        pub fn list(&self, k: &str) -> Vec<String> {
            let s = self.get(k).trim();
            let s = s.trim_start_matches('[').trim_end_matches(']');
            if s.trim().is_empty() { return vec![]; }
            split_top(s).into_iter().map(|x| x.trim().trim_matches('"').to_string()).collect()
        }
    }
    pub fn split_top(s: &str) -> Vec<String> {
        let mut out = vec![]; let mut depth = 0; let mut cur = String::new(); let mut instr = false;
        for ch in s.chars() {
            if ch == '"' { instr = !instr; }
            if !instr {
                if ch == '[' || ch == '{' { depth += 1; }
                if ch == ']' || ch == '}' { depth -= 1; }
                if ch == ',' && depth == 0 { out.push(cur.clone()); cur.clear(); continue; }
            }
            cur.push(ch);
        }
        if !cur.trim().is_empty() { out.push(cur); }
        out
    }
    pub fn parse(line: &str) -> Value {
        let s = line.trim().trim_start_matches('{').trim_end_matches('}');
        let mut m = HashMap::new();
        for kv in split_top(s) {
            if let Some(i) = kv.find(':') {
                let k = kv[..i].trim().trim_matches('"').to_string();
                let v = kv[i + 1..].trim().to_string();
                let v = if v.starts_with('"') { v.trim_matches('"').to_string() } else { v };
                m.insert(k, v);
            }
        }
        Value(m)
    }
}

fn run(v: &serde_lite::Value) -> String {
    let kind = get_str(v, "kind");
    match kind.as_str() {
        "get_position" => {
            let ts = TimeScale::new(f(v.get("dur")), f(v.get("delay")), rep(v.get("repeat")), v.get("reverse") == "true");
            let d = ts.get_duration();
            match ts.get_position(f(v.get("t"))) {
                TimeScalePosition::NotStarted => format!("{{\"tag\":0,\"pos\":0,\"rep\":false,\"rev\":false,\"duration\":{}}}", d.to_bits()),
                TimeScalePosition::Active(p, ls) => format!("{{\"tag\":1,\"pos\":{},\"rep\":{},\"rev\":{},\"duration\":{}}}", p.to_bits(), ls.is_repeating, ls.is_reversing, d.to_bits()),
                TimeScalePosition::Ended(p) => format!("{{\"tag\":2,\"pos\":{},\"rep\":false,\"rev\":false,\"duration\":{}}}", p.to_bits(), d.to_bits()),
            }
        }
        "get_duration" => {
            let ts = TimeScale::new(f(v.get("dur")), f(v.get("delay")), rep(v.get("repeat")), v.get("reverse") == "true");
            format!("{{\"duration\":{},\"delay\":{},\"cycle\":{}}}", ts.get_duration().to_bits(), ts.get_delay().to_bits(), ts.get_cycle_duration().to_bits())
        }
        "dur" => {
            let x = f(v.get("x"));
            let d = std::time::Duration::from_secs_f32(x);
            format!("{{\"nanos\":\"{}\",\"as_f32\":{}}}", d.as_nanos(), d.as_secs_f32().to_bits())
        }
        "ease" => {
            use mina_core::easing::{Easing, EasingFunction};
            let e = match v.get("easing") {
                "Linear" => Easing::Linear, "Ease" => Easing::Ease, "In" => Easing::In, "Out" => Easing::Out, "InOut" => Easing::InOut,
                "InSine" => Easing::InSine, "OutSine" => Easing::OutSine, "InOutSine" => Easing::InOutSine,
                "InQuad" => Easing::InQuad, "OutQuad" => Easing::OutQuad, "InOutQuad" => Easing::InOutQuad,
                "InCubic" => Easing::InCubic, "OutCubic" => Easing::OutCubic, "InOutCubic" => Easing::InOutCubic,
                "InQuart" => Easing::InQuart, "OutQuart" => Easing::OutQuart, "InOutQuart" => Easing::InOutQuart,
                "InQuint" => Easing::InQuint, "OutQuint" => Easing::OutQuint, "InOutQuint" => Easing::InOutQuint,
                "InExpo" => Easing::InExpo, "OutExpo" => Easing::OutExpo, "InOutExpo" => Easing::InOutExpo,
                "InCirc" => Easing::InCirc, "OutCirc" => Easing::OutCirc, "InOutCirc" => Easing::InOutCirc,
                "InBack" => Easing::InBack, "OutBack" => Easing::OutBack, "InOutBack" => Easing::InOutBack,
                other => panic!("unknown easing {}", other),
            };
            format!("{{\"r\":{}}}", e.calc(f(v.get("x"))).to_bits())
        }
        "lerp" => {
            use mina_core::interpolation::Lerp;
            let x = f(v.get("x"));
            macro_rules! int_case {
                ($t:ty) => {{
                    let a: $t = v.get("a").parse().unwrap(); let b: $t = v.get("b").parse().unwrap();
                    let r = a.lerp(&b, x);
                    let (lo, hi) = if a <= b { (a, b) } else { (b, a) };
                    format!("{{\"r\":\"{}\",\"a\":\"{}\",\"b\":\"{}\",\"r_show\":\"{}\",\"a_show\":\"{}\",\"b_show\":\"{}\",\"in_range\":{}}}", r, a, b, r, a, b, lo <= r && r <= hi)
                }};
            }
            match v.get("ty") {
                "f32" => {
                    let a = f(v.get("a")); let b = f(v.get("b")); let r = a.lerp(&b, x);
                    let (lo, hi) = if a <= b { (a, b) } else { (b, a) };
                    format!("{{\"r\":\"{}\",\"a\":\"{}\",\"b\":\"{}\",\"r_show\":\"{:?}\",\"a_show\":\"{:?}\",\"b_show\":\"{:?}\",\"in_range\":{}}}", r.to_bits(), a.to_bits(), b.to_bits(), r, a, b, lo <= r && r <= hi)
                }
                "f64" => {
                    let a = f64::from_bits(u64::from_str_radix(v.get("a"), 16).unwrap()); let b = f64::from_bits(u64::from_str_radix(v.get("b"), 16).unwrap());
                    let r = a.lerp(&b, x);
                    let (lo, hi) = if a <= b { (a, b) } else { (b, a) };
                    format!("{{\"r\":\"{}\",\"a\":\"{}\",\"b\":\"{}\",\"r_show\":\"{:?}\",\"a_show\":\"{:?}\",\"b_show\":\"{:?}\",\"in_range\":{}}}", r.to_bits(), a.to_bits(), b.to_bits(), r, a, b, lo <= r && r <= hi)
                }
                "i8" => int_case!(i8), "u8" => int_case!(u8), "i16" => int_case!(i16), "u16" => int_case!(u16),
                "i32" => int_case!(i32), "u32" => int_case!(u32), "i64" => int_case!(i64), "u64" => int_case!(u64),
                "usize" => int_case!(usize),
                t => format!("{{\"error\":\"unknown type {}\"}}", t),
            }
        }
        "ease_custom" => {
            // a custom easing that is NOT anchored at (0,0) / (1,1): c(x) = 0.25 + 0.5 x
            use mina_core::easing::{Easing, EasingFunction};
            #[derive(Clone, Debug)] struct Shifted;
            impl EasingFunction for Shifted { fn calc(&self, x: f32) -> f32 { 0.25 + 0.5 * x } }
            let x = f(v.get("x"));
            format!("{{\"via_easing\":{},\"direct\":{}}}", Easing::Custom(Box::new(Shifted)).calc(x).to_bits(), Shifted.calc(x).to_bits())
        }
        "glam_lerp" => {
            // component-wise interpolation of a glam vector type: components are passed as decimal strings
            use mina_core::interpolation::Lerp;
            use glam::*;
            let x = f(v.get("x"));
            let a: Vec<f64> = v.list("a").iter().map(|s| s.parse().unwrap()).collect();
            let b: Vec<f64> = v.list("b").iter().map(|s| s.parse().unwrap()).collect();
            macro_rules! v2 { ($T:ident, $e:ty) => {{ let r = <$T as Lerp>::lerp(&$T::new(a[0] as $e, a[1] as $e), &$T::new(b[0] as $e, b[1] as $e), x);
                let c = [<$e as Lerp>::lerp(&(a[0] as $e), &(b[0] as $e), x), <$e as Lerp>::lerp(&(a[1] as $e), &(b[1] as $e), x)];
                format!("{{\"r\":\"{:?}\",\"componentwise\":\"{:?}\",\"same\":{}}}", [r.x, r.y], c, [r.x, r.y] == c) }} }
            macro_rules! v3 { ($T:ident, $e:ty) => {{ let r = <$T as Lerp>::lerp(&$T::new(a[0] as $e, a[1] as $e, a[2] as $e), &$T::new(b[0] as $e, b[1] as $e, b[2] as $e), x);
                let c = [<$e as Lerp>::lerp(&(a[0] as $e), &(b[0] as $e), x), <$e as Lerp>::lerp(&(a[1] as $e), &(b[1] as $e), x), <$e as Lerp>::lerp(&(a[2] as $e), &(b[2] as $e), x)];
                format!("{{\"r\":\"{:?}\",\"componentwise\":\"{:?}\",\"same\":{}}}", [r.x, r.y, r.z], c, [r.x, r.y, r.z] == c) }} }
            macro_rules! v4 { ($T:ident, $e:ty) => {{ let r = <$T as Lerp>::lerp(&$T::new(a[0] as $e, a[1] as $e, a[2] as $e, a[3] as $e), &$T::new(b[0] as $e, b[1] as $e, b[2] as $e, b[3] as $e), x);
                let c = [<$e as Lerp>::lerp(&(a[0] as $e), &(b[0] as $e), x), <$e as Lerp>::lerp(&(a[1] as $e), &(b[1] as $e), x), <$e as Lerp>::lerp(&(a[2] as $e), &(b[2] as $e), x), <$e as Lerp>::lerp(&(a[3] as $e), &(b[3] as $e), x)];
                format!("{{\"r\":\"{:?}\",\"componentwise\":\"{:?}\",\"same\":{}}}", [r.x, r.y, r.z, r.w], c, [r.x, r.y, r.z, r.w] == c) }} }
            match v.get("ty") {
                "Vec2" => v2!(Vec2, f32), "DVec2" => v2!(DVec2, f64), "IVec2" => v2!(IVec2, i32), "I64Vec2" => v2!(I64Vec2, i64), "UVec2" => v2!(UVec2, u32), "U64Vec2" => v2!(U64Vec2, u64),
                "Vec3" => v3!(Vec3, f32), "Vec3A" => v3!(Vec3A, f32), "DVec3" => v3!(DVec3, f64), "IVec3" => v3!(IVec3, i32), "I64Vec3" => v3!(I64Vec3, i64), "UVec3" => v3!(UVec3, u32), "U64Vec3" => v3!(U64Vec3, u64),
                "Vec4" => v4!(Vec4, f32), "DVec4" => v4!(DVec4, f64), "IVec4" => v4!(IVec4, i32), "I64Vec4" => v4!(I64Vec4, i64), "UVec4" => v4!(UVec4, u32), "U64Vec4" => v4!(U64Vec4, u64),
                t => format!("{{\"error\":\"unknown glam type {}\"}}", t),
            }
        }
        _ => format!("{{\"error\":\"unknown kind {}\"}}", kind),
    }
}

fn main() {
    panic::set_hook(Box::new(|_| {}));
    let stdin = io::stdin();
    for line in stdin.lock().lines() {
        let line = line.unwrap();
        if line.trim().is_empty() { continue; }
        let v = serde_lite::parse(&line);
        let r = panic::catch_unwind(panic::AssertUnwindSafe(|| run(&v)));
        match r {
            Ok(s) => println!("{}", s),
            Err(e) => {
                let msg = e.downcast_ref::<String>().cloned().or_else(|| e.downcast_ref::<&str>().map(|s| s.to_string())).unwrap_or_default();
                println!("{{\"panic\":true,\"msg\":\"{}\"}}", msg.replace('"', "'").replace('\\', "/"));
            }
        }
    }
}
