//! Native replay for C18 / C19: a real bevy App (AnimationPlugin + hand-driven Time), observed after every update.
use bevy::prelude::*;
use bevy::utils::{Duration, Instant};
use bevy_mina::prelude::*;
use mina::prelude::*;
use std::io::{self, BufRead};
use std::panic;

#[derive(Animate, Clone, Component, Debug, Default, PartialEq, Reflect)]
struct V { x: f32 }
#[derive(Animate, Clone, Component, Debug, Default, PartialEq, Reflect)]
struct W { y: f32 }

#[derive(Clone, Copy, Debug, Default, Eq, Hash, PartialEq, Reflect)]
enum Key { #[default] Idle, Go, Back, NoTl }

fn field<'a>(line: &'a str, key: &str) -> &'a str {
    let pat = format!("\"{}\":", key);
    if let Some(i) = line.find(&pat) {
        let rest = line[i + pat.len()..].trim_start();
        if rest.starts_with('"') { let j = rest[1..].find('"').unwrap(); return &rest[1..=j]; }
        let j = rest.find(|c| c == ',' || c == '}').unwrap_or(rest.len()); return rest[..j].trim();
    }
    ""
}

#[derive(Resource, Default)]
struct Seen(Vec<(Entity, AnimationState)>);
fn collect(mut ev: EventReader<AnimationStateChanged>, mut seen: ResMut<Seen>) { for e in ev.iter() { seen.0.push((e.entity, e.state)); } }

fn tl_v(delay: f32, dur: f32, repeat: Repeat) -> VTimeline {
    V::timeline().delay_seconds(delay).duration_seconds(dur).repeat(repeat)
        .keyframe(V::keyframe(0.0).x(10.0)).keyframe(V::keyframe(1.0).x(20.0)).build()
}

struct Frame { state: AnimationState, pos: f32, x: f32, events: Vec<AnimationState> }

fn run_animator(deltas: &[f32], delay: f32, dur: f32, repeat: Repeat, enabled: bool, has_tl: bool) -> Vec<Frame> {
    let mut app = App::new();
    app.add_plugins(AnimationPlugin::<V>::new()).init_resource::<Time>().init_resource::<Seen>().add_systems(Last, collect);
    let mut anim = if has_tl { Animator::with_timeline(tl_v(delay, dur, repeat)) } else { Animator::new() };
    if !enabled { anim = anim.as_disabled(); }
    let e = app.world.spawn((V { x: 3.0 }, anim)).id();
    let mut now = Instant::now();
    app.world.resource_mut::<Time>().update_with_instant(now);
    let mut out = vec![];
    for d in deltas {
        now += Duration::from_secs_f32(*d);
        app.world.resource_mut::<Time>().update_with_instant(now);
        app.world.resource_mut::<Seen>().0.clear();
        app.update();
        // events are read by `collect` in the same or the next frame; run the reader once more without advancing time
        let a = app.world.get::<Animator<V>>(e).unwrap();
        let evs = app.world.resource::<Seen>().0.iter().filter(|(en, _)| *en == e).map(|(_, s)| *s).collect();
        out.push(Frame { state: a.state(), pos: a.timeline_position.as_secs_f32(), x: app.world.get::<V>(e).unwrap().x, events: evs });
    }
    out
}
fn bevy_mina_animate_marker() {}

fn run(line: &str) -> String {
    let kind = field(line, "kind");
    if kind == "bevy_animator" {
        let claim = field(line, "claim").to_string();
        let has_tl = field(line, "has_tl") != "false";
        let (delay, dur) = (1.0f32, 2.0f32); let total = delay + dur; let terminal = 20.0f32;
        let schedules: Vec<Vec<f32>> = vec![vec![0.0, 10.0, 0.5, 0.5], vec![0.0, 0.5, 0.75, 0.5, 1.5, 0.25, 0.5], vec![5.0, 0.5], vec![0.0, 0.0, 1.0, 0.0, 2.0, 0.0, 1.0]];
        let mut problems = vec![];
        for (si, sch) in schedules.iter().enumerate() {
            for enabled in [true, false] {
                let fr = run_animator(sch, delay, dur, Repeat::None, enabled, has_tl);
                let mut prev_state = AnimationState::None; let mut prev_pos = 0.0f32; let mut ended_events = 0;
                for (i, f) in fr.iter().enumerate() {
                    let rank = |s: AnimationState| match s { AnimationState::None => 0, AnimationState::Waiting => 1, AnimationState::Playing => 2, AnimationState::Ended => 3 };
                    let tag = format!("schedule {} {:?} enabled={} frame {}", si, sch, enabled, i + 1);
                    if !enabled && (f.state != AnimationState::None || f.x != 3.0 || f.pos != 0.0) { problems.push(("disabled-changes-nothing", format!("{}: state {:?} x {}", tag, f.state, f.x))); }
                    if enabled && has_tl {
                        if f.state == AnimationState::Ended && f.x != terminal { problems.push(("ended-implies-terminal-values", format!("{}: Ended with x = {} (terminal {}) after a frame that skipped Playing", tag, f.x, terminal))); }
                        if rank(f.state) < rank(prev_state) { problems.push(("state-only-moves-forward", format!("{}: {:?} -> {:?}", tag, prev_state, f.state))); }
                        if (f.state == AnimationState::Waiting || f.state == AnimationState::Playing) && (f.pos - (prev_pos + sch[i])).abs() > 1e-4 { problems.push(("position-grows-by-delta-while-waiting-or-playing", format!("{}: {} -> {} with delta {}", tag, prev_pos, f.pos, sch[i]))); }
                        if f.state == AnimationState::Ended && prev_state == AnimationState::Ended && f.pos != prev_pos { problems.push(("position-stops-once-ended", format!("{}: {} -> {}", tag, prev_pos, f.pos))); }
                        if f.state == AnimationState::Waiting && prev_pos >= delay { problems.push(("waiting-only-before-delay", format!("{}: Waiting at position {}", tag, prev_pos))); }
                        if f.state == AnimationState::Ended && prev_state != AnimationState::Ended && prev_pos < total { problems.push(("ended-not-before-duration", format!("{}: Ended at position {}", tag, prev_pos))); }
                        if prev_pos >= total && f.state != AnimationState::Ended { problems.push(("ended-at-most-one-frame-late", format!("{}: position {} >= {} but {:?}", tag, prev_pos, total, f.state))); }
                        ended_events += f.events.iter().filter(|s| **s == AnimationState::Ended).count();
                        let changed = f.state != prev_state;
                        if changed != (f.events.len() == 1) || (changed && f.events[0] != f.state) { problems.push(("event-iff-state-change", format!("{}: {:?} -> {:?} events {:?}", tag, prev_state, f.state, f.events))); }
                    }
                    prev_state = f.state; prev_pos = f.pos;
                }
                if enabled && has_tl && ended_events > 1 { problems.push(("event-iff-state-change", format!("{} Ended events", ended_events))); }
            }
        }
        let hit: Vec<&(&str, String)> = problems.iter().filter(|(c, _)| *c == claim).collect();
        let any = hit.first().map(|(_, d)| d.clone()).unwrap_or_default();
        return format!("{{\"violated\":{},\"detail\":\"{}\",\"other\":\"{}\"}}", !hit.is_empty(), any.replace('"', "'"),
                       problems.iter().map(|(c, _)| *c).collect::<Vec<_>>().join(","));
    }
    if kind == "bevy_chain_other" || kind == "bevy_selector" {
        let mut app = App::new();
        app.add_plugins((AnimationPlugin::<V>::new(), AnimationPlugin::<W>::new())).init_resource::<Time>();
        app.register_animation_key::<V, Key>();
        let go = V::timeline().duration_seconds(10.0).keyframe(V::keyframe(0.0).x(10.0)).keyframe(V::keyframe(1.0).x(20.0)).build();
        let back = V::timeline().duration_seconds(2.0).keyframe(V::keyframe(1.0).x(-5.0)).build();
        let selector = AnimationSelectorBuilder::<Key, V>::new().add(Key::Go, go).add(Key::Back, back).initial_key(Key::Idle).build();
        let chain = AnimationChainBuilder::<Key>::new().add(Key::Go, Key::Back).build();
        let short_w = W::timeline().duration_seconds(0.5).keyframe(W::keyframe(1.0).y(1.0)).build();
        let e = app.world.spawn((V { x: 3.0 }, W { y: 0.0 }, Animator::<V>::new(), Animator::<W>::with_timeline(short_w), selector, chain)).id();
        let mut now = Instant::now();
        app.world.resource_mut::<Time>().update_with_instant(now);
        let mut step = |app: &mut App, dt: f32| { now += Duration::from_secs_f32(dt); app.world.resource_mut::<Time>().update_with_instant(now); app.update(); };
        let mut problems: Vec<String> = vec![];
        step(&mut app, 0.1);
        // assign the key Go: the component must not jump in that frame and then follows the Go timeline
        let before = app.world.get::<V>(e).unwrap().x;
        app.world.get_mut::<AnimationSelector<Key, V>>(e).unwrap().timeline_key = Key::Go;
        step(&mut app, 0.1);
        let after = app.world.get::<V>(e).unwrap().x;
        if kind == "bevy_selector" && before != after { problems.push(format!("component jumped from {} to {} in the frame in which the key changed", before, after)); }
        let mut key_trace = vec![];
        for _ in 0..6 {
            step(&mut app, 0.3);
            let k = app.world.get::<AnimationSelector<Key, V>>(e).unwrap().timeline_key;
            let sv = app.world.get::<Animator<V>>(e).unwrap().state();
            key_trace.push(format!("{:?}/{:?}", k, sv));
            if kind == "bevy_chain_other" && k != Key::Go && sv != AnimationState::Ended && problems.is_empty() {
                problems.push(format!("selector<Key,V> moved from Go to {:?} although Animator<V> is still {:?}: the Ended event of Animator<W> (another component type on the same entity) fired the chain", k, sv));
            }
        }
        if kind == "bevy_selector" {
            // re-assigning the current key does not restart anything
            let k = app.world.get::<AnimationSelector<Key, V>>(e).unwrap().timeline_key;
            let p0 = app.world.get::<Animator<V>>(e).unwrap().timeline_position;
            app.world.get_mut::<AnimationSelector<Key, V>>(e).unwrap().timeline_key = k;
            step(&mut app, 0.0);
            let p1 = app.world.get::<Animator<V>>(e).unwrap().timeline_position;
            if p1 < p0 { problems.push(format!("re-assigning the current key restarted the animation ({:?} -> {:?})", p0, p1)); }
            // a key without a timeline stops animation and leaves the component alone
            app.world.get_mut::<AnimationSelector<Key, V>>(e).unwrap().timeline_key = Key::NoTl;
            step(&mut app, 0.1);
            let x1 = app.world.get::<V>(e).unwrap().x;
            step(&mut app, 0.5);
            let x2 = app.world.get::<V>(e).unwrap().x;
            if x1 != x2 { problems.push(format!("component changed from {} to {} under a key without a timeline", x1, x2)); }
        }
        return format!("{{\"violated\":{},\"detail\":\"{}\",\"trace\":\"{}\"}}", !problems.is_empty(), problems.join("; ").replace('"', "'"), key_trace.join(" "));
    }

    if kind == "bevy_step" {
        // One frame of the real `animate` system from the pre-state of a solver counterexample, constructed through the public API:
        // the private state is reached with helper timelines (set_timeline does not reset the state), then the real timeline, the
        // public timeline_position / enabled fields and the component are set; every clause of C18 is then judged on that frame
        // with the quantities the real code reports (timeline.delay(), duration(), as_secs_f32 of the position).
        let pre_state: u32 = field(line, "pre_state").parse().unwrap_or(0);
        let enabled = field(line, "enabled") != "false";
        let has_tl = field(line, "has_tl") != "false";
        let has_tgt = field(line, "has_tgt") != "false";
        let pf = |k: &str, d: f32| -> f32 { let v = field(line, k); if v == "inf" { f32::INFINITY } else { v.parse().unwrap_or(d) } };
        let (pos, delta, delay, dur, x0) = (pf("pos", 0.0), pf("delta", 0.1), pf("delay", 0.0), pf("dur", 1.0), pf("x0", 3.0));
        let mut app = App::new();
        app.add_plugins(AnimationPlugin::<V>::new()).init_resource::<Time>().init_resource::<Seen>().add_systems(Last, collect);
        let real_tl = || -> VTimeline {
            if dur.is_infinite() { tl_v(delay, 1.0, Repeat::Infinite) } else { tl_v(delay, (dur - delay).max(1e-3), Repeat::None) }
        };
        // optionally another entity with its own animator, spawned (and therefore iterated) first
        let other = field(line, "other");
        if !other.is_empty() && other != "null" {
            let mut oa = if other == "with_timeline" { Animator::with_timeline(tl_v(0.0, 1000.0, Repeat::None)) } else { Animator::<V>::new() };
            if field(line, "other_enabled") == "false" { oa = oa.as_disabled(); }
            app.world.spawn((V { x: 1.0 }, oa));
        }
        let e = if has_tgt { app.world.spawn((V { x: 3.0 }, Animator::<V>::new())).id() } else { app.world.spawn(Animator::<V>::new()).id() };
        let mut now = Instant::now();
        app.world.resource_mut::<Time>().update_with_instant(now);
        let mut frame = |app: &mut App, d: f32| { now += Duration::from_secs_f32(d); app.world.resource_mut::<Time>().update_with_instant(now); app.update(); };
        // reach the private state
        match pre_state {
            1 => { app.world.get_mut::<Animator<V>>(e).unwrap().set_timeline(tl_v(1000.0, 1.0, Repeat::None)); frame(&mut app, 0.0); }
            2 => { app.world.get_mut::<Animator<V>>(e).unwrap().set_timeline(tl_v(0.0, 1000.0, Repeat::None)); frame(&mut app, 0.0); }
            3 => { app.world.get_mut::<Animator<V>>(e).unwrap().set_timeline(tl_v(0.0, 0.5, Repeat::None)); frame(&mut app, 1.0); frame(&mut app, 1.0); frame(&mut app, 0.0); }
            _ => {}
        }
        let rank = |s: AnimationState| match s { AnimationState::None => 0u32, AnimationState::Waiting => 1, AnimationState::Playing => 2, AnimationState::Ended => 3 };
        if pre_state != 0 && !has_tl { return "{\"violated\":false,\"skipped\":\"state without a timeline is only reachable as None\",\"claims\":\"\"}".to_string(); }
        {
            let mut a = app.world.get_mut::<Animator<V>>(e).unwrap();
            if has_tl { a.set_timeline(real_tl()); }
            a.timeline_position = Duration::from_secs_f32(pos);
            a.enabled = enabled;
        }
        let st0 = app.world.get::<Animator<V>>(e).unwrap().state();
        if rank(st0) != pre_state { return format!("{{\"violated\":false,\"skipped\":\"pre-state {:?} not reached ({:?})\",\"claims\":\"\"}}", pre_state, st0); }
        let tl = real_tl();
        let (rdur, rdly) = (tl.duration(), tl.delay());
        let mut scratch = V { x: 0.0 }; tl.update(&mut scratch, if rdur.is_finite() { rdur + 1.0 } else { 0.0 }); let terminal = scratch.x;
        let t_old = app.world.get::<Animator<V>>(e).unwrap().timeline_position.as_secs_f32();
        let pos0 = app.world.get::<Animator<V>>(e).unwrap().timeline_position;
        // inductive hypothesis of the model on Ended pre-states: the position reached the duration and the target rests
        let x_start = if pre_state == 3 { terminal } else { x0 };
        if pre_state == 3 && !(t_old >= rdur) { return "{\"violated\":false,\"skipped\":\"Ended pre-state outside the inductive hypothesis\",\"claims\":\"\"}".to_string(); }
        if has_tgt { app.world.get_mut::<V>(e).unwrap().x = x_start; }
        app.world.resource_mut::<Seen>().0.clear();
        app.world.resource_mut::<Events<AnimationStateChanged>>().clear();
        // resource states named by a run-condition counterexample (a paused clock reports zero-length frames)
        let paused = field(line, "paused") == "true";
        if paused { app.world.resource_mut::<Time>().pause(); }
        frame(&mut app, delta);
        let a = app.world.get::<Animator<V>>(e).unwrap();
        let (ns, npos, nen) = (a.state(), a.timeline_position, a.enabled);
        let nx = if has_tgt { app.world.get::<V>(e).unwrap().x } else { 0.0 };
        let evs: Vec<AnimationState> = app.world.resource::<Seen>().0.iter().filter(|(en, _)| *en == e).map(|(_, s)| *s).collect();
        let dd = if paused { Duration::ZERO } else { Duration::from_secs_f32(delta) };
        let mut bad: Vec<String> = vec![];
        let same_all = ns == st0 && npos == pos0 && nen == enabled && (!has_tgt || nx == x_start);
        if !enabled && !(same_all && evs.is_empty()) { bad.push("disabled-changes-nothing".into()); }
        if has_tl {
            if enabled && (rank(ns) == 1 || rank(ns) == 2) && npos != pos0 + dd { bad.push("position-grows-by-delta-while-waiting-or-playing".into()); }
            if enabled && rank(ns) == 3 && npos != pos0 { bad.push("position-stops-once-ended".into()); }
            if enabled && rank(ns) < rank(st0) { bad.push("state-only-moves-forward".into()); }
            if enabled && rank(ns) == 1 && !(t_old < rdly) { bad.push("waiting-only-before-delay".into()); }
            if enabled && rdur.is_infinite() && rank(ns) == 3 { bad.push("never-ended-when-infinite".into()); }
            if enabled && rank(ns) == 3 && rank(st0) != 3 && !(t_old >= rdur) { bad.push("ended-not-before-duration".into()); }
            if enabled && t_old >= rdur && rank(ns) != 3 { bad.push("ended-at-most-one-frame-late".into()); }
            if has_tgt {
                if enabled && rank(ns) == 3 && nx != terminal { bad.push("ended-implies-terminal-values".into()); }
                let mut sc = V { x: x_start }; tl.update(&mut sc, t_old);
                if enabled && rank(st0) == 2 && nx != sc.x { bad.push("playing-shows-timeline-at-frame-old-position".into()); }
            }
        } else if enabled && !(rank(ns) == 0 && npos == pos0 && (!has_tgt || nx == x_start)) { bad.push("no-timeline-state-none".into()); }
        let changed = ns != st0;
        let ev_ok = if !enabled { evs.is_empty() } else if changed { evs.len() == 1 && evs[0] == ns } else { evs.is_empty() };
        if !ev_ok { bad.push("event-iff-state-change".into()); }
        return format!("{{\"violated\":{},\"claims\":\"{}\",\"detail\":\"pre-state {:?} enabled={} position {:?} (delay {}, total duration {}), component x = {}, frame delta {} s{} -> state {:?}, position {:?}, x = {} (terminal value {}), events {:?}\"}}",
                       !bad.is_empty(), bad.join(","), st0, enabled, pos0, rdly, rdur, x_start, delta, if paused { " (clock paused: zero-length frame)" } else { "" }, ns, npos, nx, terminal, evs);
    }
    if kind == "bevy_builder_dup" {
        // a key registered twice on one AnimationSelectorBuilder: the timeline specified last is the one the key plays
        let mut app = App::new();
        app.add_plugins(AnimationPlugin::<V>::new()).init_resource::<Time>();
        app.register_animation_key::<V, Key>();
        let first = V::timeline().duration_seconds(1.0).keyframe(V::keyframe(1.0).x(10.0)).build();
        let second = V::timeline().duration_seconds(1.0).keyframe(V::keyframe(1.0).x(-100.0)).build();
        let selector = AnimationSelectorBuilder::<Key, V>::new().add(Key::Go, first).add(Key::Go, second).initial_key(Key::Idle).build();
        let e = app.world.spawn((V { x: 0.0 }, Animator::<V>::new(), selector)).id();
        let mut now = Instant::now();
        app.world.resource_mut::<Time>().update_with_instant(now);
        let mut step = |app: &mut App, dt: f32| { now += Duration::from_secs_f32(dt); app.world.resource_mut::<Time>().update_with_instant(now); app.update(); };
        step(&mut app, 0.1);
        app.world.get_mut::<AnimationSelector<Key, V>>(e).unwrap().timeline_key = Key::Go;
        for _ in 0..8 { step(&mut app, 0.25); }
        let x = app.world.get::<V>(e).unwrap().x;
        return format!("{{\"violated\":{},\"detail\":\"builder.add(Go, t -> 10).add(Go, t -> -100): after key Go played to its end the component shows x = {} (the timeline specified last ends at -100)\"}}", x != -100.0, x);
    }
    if kind == "bevy_two_plugins" {
        // two AnimationPlugins in one App: every animated component type gets its per-frame system
        let mut app = App::new();
        app.add_plugins((AnimationPlugin::<V>::new(), AnimationPlugin::<W>::new())).init_resource::<Time>();
        let tw = W::timeline().duration_seconds(1.0).keyframe(W::keyframe(0.0).y(1.0)).keyframe(W::keyframe(1.0).y(9.0)).build();
        let ev = app.world.spawn((V { x: 3.0 }, Animator::<V>::with_timeline(tl_v(0.0, 1.0, Repeat::None)))).id();
        let ew = app.world.spawn((W { y: 0.0 }, Animator::<W>::with_timeline(tw))).id();
        let mut now = Instant::now();
        app.world.resource_mut::<Time>().update_with_instant(now);
        for _ in 0..8 { now += Duration::from_secs_f32(0.25); app.world.resource_mut::<Time>().update_with_instant(now); app.update(); }
        let (sv, sw) = (app.world.get::<Animator<V>>(ev).unwrap().state(), app.world.get::<Animator<W>>(ew).unwrap().state());
        let (xv, yw) = (app.world.get::<V>(ev).unwrap().x, app.world.get::<W>(ew).unwrap().y);
        let bad = sv != AnimationState::Ended || sw != AnimationState::Ended || xv != 20.0 || yw != 9.0;
        return format!("{{\"violated\":{},\"detail\":\"after 8 frames of 0.25 s (both timelines last 1 s): Animator<V> is {:?} with x = {} (final value 20), Animator<W> is {:?} with y = {} (final value 9), position of Animator<W> {:?}\"}}", bad, sv, xv, sw, yw, app.world.get::<Animator<W>>(ew).unwrap().timeline_position);
    }
    if kind == "bevy_chain_step" {
        // One frame of the real chain_animations system: entity 0 has selector + chain (key `cur`), entity 1 has neither; the given
        // AnimationStateChanged events are sent through the public Events resource; the selector key is read after the frame.
        let cur = parse_key(field(line, "cur"));
        let mut app = App::new();
        app.add_plugins(AnimationPlugin::<V>::new()).init_resource::<Time>();
        app.register_animation_key::<V, Key>();
        let go = V::timeline().duration_seconds(1000.0).keyframe(V::keyframe(1.0).x(20.0)).build();
        let back = V::timeline().duration_seconds(1000.0).keyframe(V::keyframe(1.0).x(-5.0)).build();
        let selector = AnimationSelectorBuilder::<Key, V>::new().add(Key::Go, go).add(Key::Back, back).initial_key(cur).build();
        let mut cb = AnimationChainBuilder::<Key>::new();
        for pair in field(line, "chain").split(';').filter(|x| !x.is_empty()) {
            let mut it = pair.split('>'); let a = parse_key(it.next().unwrap()); let b = parse_key(it.next().unwrap());
            cb = cb.add(a, b);
        }
        let e0 = app.world.spawn((V { x: 3.0 }, Animator::<V>::new(), selector, cb.build())).id();
        let e1 = app.world.spawn((V { x: 4.0 }, Animator::<V>::new())).id();
        let mut now = Instant::now();
        app.world.resource_mut::<Time>().update_with_instant(now);
        for _ in 0..3 { now += Duration::from_secs_f32(0.01); app.world.resource_mut::<Time>().update_with_instant(now); app.update(); }
        let k0 = app.world.get::<AnimationSelector<Key, V>>(e0).unwrap().timeline_key;
        for evs in field(line, "events").split(';').filter(|x| !x.is_empty()) {
            let mut it = evs.split(':'); let who: u32 = it.next().unwrap().parse().unwrap(); let st: u32 = it.next().unwrap().parse().unwrap();
            let st = match st { 0 => AnimationState::None, 1 => AnimationState::Waiting, 2 => AnimationState::Playing, _ => AnimationState::Ended };
            app.world.send_event(AnimationStateChanged::new(if who == 0 { e0 } else { e1 }, st));
        }
        now += Duration::from_secs_f32(0.01); app.world.resource_mut::<Time>().update_with_instant(now); app.update();
        let k1 = app.world.get::<AnimationSelector<Key, V>>(e0).unwrap().timeline_key;
        return format!("{{\"key_before\":\"{:?}\",\"key_after\":\"{:?}\"}}", k0, k1);
    }
    if kind == "bevy_history" {
        return run_history(field(line, "ops"), field(line, "chain"));
    }
    format!("{{\"error\":\"unknown kind {}\"}}", kind)
}

fn parse_key(s: &str) -> Key { match s { "Go" => Key::Go, "Back" => Key::Back, "NoTl" => Key::NoTl, _ => Key::Idle } }

/// A key / frame history on a real App, judged against the documented behaviour of selector + chain + animator:
///   * the component does not change in the frame in which a key change is processed;
///   * under a key with a timeline (linear, no 0% keyframe, duration D, final value f, blended from the value s held at the
///     change) the component shows s + (f - s) * clamp(P / D) for a position P between the time elapsed since the change
///     frame excluding and including that frame's own delta, minus the last delta (values lag one frame); once P >= D the
///     component rests at f and the animator is Ended at most one frame later;
///   * under a key without a timeline the component keeps its value and the animator state is None;
///   * re-assigning the current key never moves timeline_position backwards;
///   * with a chain entry k -> k', at most 3 frames after k's animation ended the selector key is k'; without an entry it stays.
fn run_history(ops: &str, chain_spec: &str) -> String {
    let mut app = App::new();
    app.add_plugins(AnimationPlugin::<V>::new()).init_resource::<Time>();
    app.register_animation_key::<V, Key>();
    let spec = |k: Key| -> Option<(f32, f32)> { match k { Key::Go => Some((1.0, 20.0)), Key::Back => Some((0.5, -5.0)), _ => None } };
    let go = V::timeline().duration_seconds(1.0).keyframe(V::keyframe(1.0).x(20.0)).build();
    let back = V::timeline().duration_seconds(0.5).keyframe(V::keyframe(1.0).x(-5.0)).build();
    let selector = AnimationSelectorBuilder::<Key, V>::new().add(Key::Go, go).add(Key::Back, back).initial_key(Key::Idle).build();
    let mut cb = AnimationChainBuilder::<Key>::new();
    let mut cmap: Vec<(Key, Key)> = vec![];
    for pair in chain_spec.split(';').filter(|x| !x.is_empty()) {
        let mut it = pair.split('>'); let a = parse_key(it.next().unwrap()); let b = parse_key(it.next().unwrap());
        cb = cb.add(a, b); cmap.push((a, b));
    }
    let e = app.world.spawn((V { x: 3.0 }, Animator::<V>::new(), selector, cb.build())).id();
    let mut now = Instant::now();
    app.world.resource_mut::<Time>().update_with_instant(now);
    let mut problems: Vec<String> = vec![];
    // reference
    let mut eff: Key = Key::Idle;            // key whose timeline is (expected to be) loaded
    let mut start_x = 3.0f32;
    let mut dts: Vec<f32> = vec![];          // deltas of the frames since (and including) the change frame
    let mut pending: Option<Key> = None;
    let mut ended_frames = 0u32; let mut chain_driven = false;
    let mut trace = vec![];
    // first frame: the freshly added selector counts as changed (Idle: no timeline)
    now += Duration::from_secs_f32(0.1); app.world.resource_mut::<Time>().update_with_instant(now); app.update();
    for (i, op) in ops.split(',').map(|x| x.trim().trim_matches(|c| c == '[' || c == ']' || c == '"' || c == ' ')).filter(|x| !x.is_empty()).enumerate() {
        if let Some(k) = op.strip_prefix("key:") {
            let k = parse_key(k);
            let cur = app.world.get::<AnimationSelector<Key, V>>(e).unwrap().timeline_key;
            let p0 = app.world.get::<Animator<V>>(e).unwrap().timeline_position;
            app.world.get_mut::<AnimationSelector<Key, V>>(e).unwrap().timeline_key = k;
            if k != cur { pending = Some(k); } else if pending.is_none() {
                // re-assignment of the current key: checked on the next frame through the position
                let _ = p0;
            }
            continue;
        }
        let dt: f32 = op.strip_prefix("step:").unwrap_or("0.1").parse().unwrap();
        let x_before = app.world.get::<V>(e).unwrap().x;
        let pos_before = app.world.get::<Animator<V>>(e).unwrap().timeline_position;
        let key_before = app.world.get::<AnimationSelector<Key, V>>(e).unwrap().timeline_key;
        let st_before = app.world.get::<Animator<V>>(e).unwrap().state();
        now += Duration::from_secs_f32(dt); app.world.resource_mut::<Time>().update_with_instant(now); app.update();
        let x = app.world.get::<V>(e).unwrap().x;
        let a = app.world.get::<Animator<V>>(e).unwrap();
        let (st, pos) = (a.state(), a.timeline_position);
        let key_now = app.world.get::<AnimationSelector<Key, V>>(e).unwrap().timeline_key;
        trace.push(format!("{:?}/{:?}/{}", key_now, st, x));
        let tag = format!("operation {} ({})", i + 1, op);
        if let Some(k) = pending.take() {
            // the frame that processes a user key change
            if x != x_before { problems.push(format!("{}: component jumped from {} to {} in the frame in which the key changed to {:?}", tag, x_before, x, k)); }
            eff = k; start_x = x_before; dts = vec![dt]; ended_frames = 0; chain_driven = false;
            continue;
        }
        if key_now != key_before {
            // the chain moved the key in this frame
            let allowed = cmap.iter().any(|(a, b)| *a == key_before && *b == key_now) && st_before == AnimationState::Ended;
            if !allowed { problems.push(format!("{}: selector key moved from {:?} to {:?} without an ended animation mapped by the chain", tag, key_before, key_now)); }
            // select may process it in this frame or the next one: restart the reference loosely
            eff = key_now; start_x = x; dts = vec![dt]; ended_frames = 0; chain_driven = true;
            continue;
        }
        dts.push(dt);
        match spec(eff) {
            None => {
                if x != x_before { problems.push(format!("{}: component changed from {} to {} under key {:?}, which has no timeline", tag, x_before, x, eff)); }
                if st != AnimationState::None { problems.push(format!("{}: animator state {:?} under key {:?}, which has no timeline", tag, st, eff)); }
            }
            Some((d, f)) => {
                // position shown in this frame: elapsed before this frame's delta, with or without the change frame's own delta
                let n = dts.len();
                let hi: f32 = dts[..n - 1].iter().sum();
                // chain-driven changes are processed by select_animation in the same frame or one frame late (the two systems are unordered)
                let skip = if chain_driven { 2 } else { 1 };
                let lo: f32 = if n > skip { dts[skip..n - 1].iter().sum() } else { 0.0 };
                let val = |p: f32| start_x + (f - start_x) * (p / d).clamp(0.0, 1.0);
                let (a_, b_) = (val(lo), val(hi));
                let (mn, mx) = (a_.min(b_) - 1e-3, a_.max(b_) + 1e-3);
                if !(x >= mn && x <= mx) {
                    problems.push(format!("{}: under key {:?} (blended from {}) the component shows {} but its timeline gives a value in [{}, {}] at the elapsed position [{}, {}]", tag, eff, start_x, x, mn, mx, lo, hi));
                }
                if st == AnimationState::Ended && hi + dt < d - 1e-4 { problems.push(format!("{}: the animator of key {:?} is Ended at position <= {} although the timeline lasts {}", tag, eff, hi + dt, d)); }
                if lo >= d {
                    ended_frames += 1;
                    if x != f { problems.push(format!("{}: the animation of key {:?} is over (position >= {}) but the component shows {} instead of its final value {}", tag, eff, lo, x, f)); }
                    if ended_frames >= 2 && st != AnimationState::Ended { problems.push(format!("{}: the animation of key {:?} is over but the animator state is {:?}", tag, eff, st)); }
                    if ended_frames >= 4 {
                        if let Some((_, b)) = cmap.iter().find(|(a, _)| *a == eff) { if key_now != *b { problems.push(format!("{}: {:?} ended {} frames ago and the chain maps it to {:?}, but the selector key is {:?}", tag, eff, ended_frames, b, key_now)); } }
                    }
                } else if n >= 3 && dt > 0.0 && hi > 0.0 && lo < d && st == AnimationState::None {
                    problems.push(format!("{}: key {:?} has a timeline but the animator is not playing it (state None)", tag, eff));
                }
            }
        }
        if pos < pos_before && key_now == key_before { problems.push(format!("{}: timeline_position moved backwards ({:?} -> {:?}) without a key change", tag, pos_before, pos)); }
    }
    problems.dedup();
    format!("{{\"violated\":{},\"detail\":\"{}\",\"trace\":\"{}\"}}", !problems.is_empty(), problems.iter().take(3).cloned().collect::<Vec<_>>().join("; ").replace('"', "'"), trace.join(" "))
}

fn main() {
    panic::set_hook(Box::new(|_| {}));
    for line in io::stdin().lock().lines() {
        let line = line.unwrap();
        if line.trim().is_empty() { continue; }
        match panic::catch_unwind(panic::AssertUnwindSafe(|| run(&line))) {
            Ok(s) => println!("{}", s),
            Err(e) => {
                let msg = e.downcast_ref::<String>().cloned().or_else(|| e.downcast_ref::<&str>().map(|s| s.to_string())).unwrap_or_default();
                println!("{{\"panic\":true,\"detail\":\"panic: {}\"}}", msg.replace('"', "'").replace('\\', "/"));
            }
        }
    }
}
