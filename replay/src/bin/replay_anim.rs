//! Native replay of animator histories (C04-C07): the real StateAnimator is driven through the public API and
//! compared (a) with itself across set_state (no jump) and (b) with a reference animator written from the documented
//! blend / pause / resume rules that re-evaluates pristine timelines.
use enum_map::Enum;
use mina::prelude::*;
use std::io::{self, BufRead};
use std::panic;
use std::time::Duration;

#[derive(Animate, Clone, Debug, Default, PartialEq)]
pub struct V { pub x: f32 }

#[derive(Clone, Copy, Debug, Default, Eq, PartialEq, Enum)]
pub enum St { #[default] A, B, C, D }
const STATES: [St; 4] = [St::A, St::B, St::C, St::D];

fn component(k: usize, dur: f32, delay: f32, repeat: Repeat, reverse: bool) -> VTimeline {
    V::timeline().duration_seconds(dur).delay_seconds(delay).repeat(repeat).reverse(reverse)
        .keyframe(V::keyframe(0.0).x(10.0 * (k as f32 + 1.0)))
        .keyframe(V::keyframe(1.0).x(100.0 * (k as f32 + 1.0)))
        .build()
}

fn field<'a>(line: &'a str, key: &str) -> &'a str {
    let pat = format!("\"{}\":", key);
    if let Some(i) = line.find(&pat) {
        let rest = line[i + pat.len()..].trim_start();
        if rest.starts_with('[') { let j = rest.find(']').unwrap(); return &rest[..=j]; }
        if rest.starts_with('"') { let j = rest[1..].find('"').unwrap(); return &rest[1..=j]; }
        let j = rest.find(|c| c == ',' || c == '}').unwrap_or(rest.len()); return rest[..j].trim();
    }
    ""
}
fn list(s: &str) -> Vec<String> {
    let s = s.trim().trim_start_matches('[').trim_end_matches(']');
    s.split(',').map(|x| x.trim().trim_matches('"').to_string()).filter(|x| !x.is_empty()).collect()
}

struct RefAnim {
    cfg: Vec<Option<MergedTimeline<VTimeline>>>, // pristine
    cur: usize, t: Duration, pause: Option<(usize, Duration)>, values: V, start: Vec<V>,
    total: Vec<f32>, // per state: max over components of delay + cycle * (repeats + 1), computed from the configuration
}
impl RefAnim {
    fn eval(&mut self) {
        if let Some(tl) = &self.cfg[self.cur] {
            let mut t = tl.clone();
            t.start_with(&self.start[self.cur]);
            t.update(&mut self.values, self.t.as_secs_f32());
        }
    }
    fn set_state(&mut self, s: usize) {
        if s == self.cur { return; }
        match self.pause {
            Some((ps, pt)) if ps == s => { self.t = pt; self.pause = None; }
            _ => {
                let was = self.cfg[self.cur].is_some(); let will = self.cfg[s].is_some();
                if was && !will { self.pause = Some((self.cur, self.t)); } else if will { self.pause = None; }
                if will { self.start[s] = self.values.clone(); }
                self.t = Duration::ZERO;
            }
        }
        self.cur = s; self.eval();
    }
    fn is_ended(&self) -> bool {
        match &self.cfg[self.cur] { None => true, Some(_) => self.t.as_secs_f32() >= self.total[self.cur] }
    }
}

fn run(line: &str) -> String {
    let config = list(field(line, "config"));
    let ops = list(field(line, "ops"));
    let timing = field(line, "timing"); // optional: "dur,delay,repeat,reverse" for component 0
    // optional: per-component specs "dur;delay;repeat;reverse;keyframe position;keyframe value" (one keyframe: lead-in from the default
    // / blended start value, held to the end), separated by '|'
    let specs: Vec<String> = field(line, "specs").split('|').filter(|x| !x.is_empty()).map(|x| x.to_string()).collect();
    let mut k = 0usize;
    let mut cfg: Vec<Option<MergedTimeline<VTimeline>>> = vec![];
    let mut total: Vec<f32> = vec![];
    let tot = |k: usize| -> f32 {
        if k < specs.len() {
            let p: Vec<&str> = specs[k].split(';').collect();
            let d: f32 = p[0].parse().unwrap(); let dl: f32 = p[1].parse().unwrap();
            match p[2] { "none" => dl + d, "inf" => f32::INFINITY, n => dl + d * (n.parse::<u64>().unwrap() + 1) as f32 }
        } else if k == 0 && !timing.is_empty() {
            let p: Vec<&str> = timing.split(';').collect();
            let d: f32 = p[0].parse().unwrap(); let dl: f32 = p[1].parse().unwrap();
            match p[2] { "none" => dl + d, "inf" => f32::INFINITY, n => dl + d * (n.parse::<u64>().unwrap() + 1) as f32 }
        } else { 2.0 * k as f32 + (5.0 + k as f32) }
    };
    for c in config.iter() {
        let mk = |k: usize| -> VTimeline {
            if k < specs.len() {
                let p: Vec<&str> = specs[k].split(';').collect();
                let rep = match p[2] { "none" => Repeat::None, "inf" => Repeat::Infinite, n => Repeat::Times(n.parse().unwrap()) };
                V::timeline().duration_seconds(p[0].parse().unwrap()).delay_seconds(p[1].parse().unwrap()).repeat(rep).reverse(p[3] == "true")
                    .keyframe(V::keyframe(p[4].parse().unwrap()).x(p[5].parse().unwrap())).build()
            } else if k == 0 && !timing.is_empty() {
                let p: Vec<&str> = timing.split(';').collect();
                let rep = match p[2] { "none" => Repeat::None, "inf" => Repeat::Infinite, n => Repeat::Times(n.parse().unwrap()) };
                component(k, p[0].parse().unwrap(), p[1].parse().unwrap(), rep, p[3] == "true")
            } else { component(k, 5.0 + k as f32, 2.0 * k as f32, Repeat::None, false) }
        };
        match c.as_str() {
            "none" => { cfg.push(None); total.push(0.0); }
            "single" => { cfg.push(Some(MergedTimeline::of([mk(k)]))); total.push(tot(k)); k += 1; }
            _ => { cfg.push(Some(MergedTimeline::of([mk(k), mk(k + 1)]))); total.push(tot(k).max(tot(k + 1))); k += 2; }
        }
    }
    while cfg.len() < 4 { cfg.push(None); total.push(0.0); }
    let init = V { x: 3.0 };
    let mut b = StateAnimatorBuilder::new().from_state(St::A).from_values(init.clone());
    for (i, c) in cfg.iter().enumerate() { if let Some(tl) = c { b = b.on(STATES[i], tl.clone()); } }
    let mut anim = b.build();
    let mut r = RefAnim { cfg: cfg.clone(), cur: 0, t: Duration::ZERO, pause: None, values: init.clone(), start: vec![init.clone(); 4], total };
    if r.cfg[0].is_some() { r.start[0] = init.clone(); }
    let mut jump = false; let mut mism = false; let mut detail = String::new(); let mut trace = vec![];
    for (i, op) in ops.iter().enumerate() {
        let before = anim.current_values().clone();
        if let Some(d) = op.strip_prefix("adv:") {
            let dt: f32 = if d.starts_with("0x") { f32::from_bits(u32::from_str_radix(&d[2..], 16).unwrap()) } else { d.parse().unwrap() };
            anim.advance(dt);
            // documented accumulation: the elapsed Durations are added up, saturating at Duration::MAX for astronomically large steps
            let step = match Duration::try_from_secs_f32(dt) { Ok(d) => d, Err(_) if dt > 0.0 => Duration::MAX, Err(_) => Duration::from_secs_f32(dt) };
            r.t = r.t.saturating_add(step); r.eval();
        } else if let Some(s) = op.strip_prefix("set:") {
            let s: usize = s.parse().unwrap();
            anim.set_state(&STATES[s]);
            let after = anim.current_values().clone();
            if before != after && !jump { jump = true; detail = format!("values jump at operation {} (set_state({:?})): {:?} -> {:?}", i + 1, STATES[s], before.x, after.x); }
            r.set_state(s);
        }
        trace.push(format!("{:?}", anim.current_values().x));
        if !mism && (anim.current_values() != &r.values || anim.is_ended() != r.is_ended() || *anim.current_state() != STATES[r.cur]) {
            mism = true;
            let d2 = format!("after operation {} ({}): animator x={:?} ended={} state={:?}; documented rules give x={:?} ended={} state={:?}", i + 1, op,
                anim.current_values().x, anim.is_ended(), anim.current_state(), r.values.x, r.is_ended(), STATES[r.cur]);
            if detail.is_empty() { detail = d2; } else { detail = format!("{}; {}", detail, d2); }
        }
    }
    format!("{{\"jump\":{},\"mismatch\":{},\"ended\":{},\"detail\":\"{}\",\"trace\":\"{}\"}}", jump, mism, anim.is_ended(), detail.replace('"', "'"), trace.join(" "))
}

fn main() {
    panic::set_hook(Box::new(|_| {}));
    for line in io::stdin().lock().lines() {
        let line = line.unwrap();
        if line.trim().is_empty() { continue; }
        match panic::catch_unwind(panic::AssertUnwindSafe(|| run(&line))) {
            Ok(s) => println!("{}", s),
            Err(e) => {
                let msg = e.downcast_ref::<String>().cloned().or_else(|| e.downcast_ref::<&str>().map(|s| s.to_string())).unwrap_or_default();
                println!("{{\"panic\":true,\"detail\":\"panic: {}\"}}", msg.replace('"', "'").replace('\\', "/"));
            }
        }
    }
}
