//! Native replay for structural counterexamples (C01, C02, C08-C12): builds the timeline through the public
//! builder API of the real crates and compares `update` with a reference model written from the property text.
use mina::prelude::*;
use mina_core::easing::EasingFunction;
use mina_core::interpolation::Lerp;
use mina_core::time_scale::{TimeScale, TimeScalePosition};
use std::io::{self, BufRead};
use std::panic;

#[derive(Animate, Clone, Debug, Default, PartialEq)]
pub struct S1 { pub v: f32 }
#[derive(Animate, Clone, Debug, Default, PartialEq)]
pub struct S2 { pub x: f32, pub y: u8 }
#[derive(Animate, Clone, Debug, Default, PartialEq)]
pub struct S3 { #[animate] pub a: f32, pub untouched: f32, #[animate] pub b: i16 }

/// distinguishable custom easings: tag k maps x to (k+2)x / (1 + (k+1)x)  (0 -> 0, 1 -> 1)
#[derive(Clone, Debug)]
struct TagEasing(u32);
impl EasingFunction for TagEasing {
    fn calc(&self, x: f32) -> f32 { let k = self.0 as f32; (k + 2.0) * x / (1.0 + (k + 1.0) * x) }
}
fn tag(k: u32) -> Easing { Easing::Custom(Box::new(TagEasing(k))) }
fn ease(k: u32, x: f32) -> f32 { TagEasing(k).calc(x) }

mod lite {
    use std::collections::HashMap;
    pub struct Value(pub HashMap<String, String>);
    impl Value {
        pub fn get(&self, k: &str) -> &str { self.0.get(k).map(|s| s.as_str()).unwrap_or("") }
        pub fn list(&self, k: &str) -> Vec<String> { list(self.get(k)) }
    }
    pub fn list(s: &str) -> Vec<String> {
        let s = s.trim();
        if !s.starts_with('[') { return vec![]; }
        let s = &s[1..s.len() - 1];
        split_top(s).into_iter().map(|x| x.trim().trim_matches('"').to_string()).collect()
    }
    pub fn split_top(s: &str) -> Vec<String> {
        let mut out = vec![]; let mut depth = 0; let mut cur = String::new(); let mut instr = false;
        for ch in s.chars() {
            if ch == '"' { instr = !instr; }
            if !instr {
                if ch == '[' || ch == '{' { depth += 1; }
                if ch == ']' || ch == '}' { depth -= 1; }
                if ch == ',' && depth == 0 { out.push(cur.clone()); cur.clear(); continue; }
            }
            cur.push(ch);
        }
        if !cur.trim().is_empty() { out.push(cur); }
        out
    }
    pub fn parse(line: &str) -> Value {
        let t = line.trim();
        let s = &t[1..t.len() - 1];
        let mut m = HashMap::new();
        for kv in split_top(s) {
            if let Some(i) = kv.find(':') {
                let k = kv[..i].trim().trim_matches('"').to_string();
                let v = kv[i + 1..].trim().to_string();
                let v = if v.starts_with('"') { v.trim_matches('"').to_string() } else { v };
                m.insert(k, v);
            }
        }
        Value(m)
    }
}

fn fb(s: &str) -> f32 { f32::from_bits(u32::from_str_radix(s, 16).unwrap()) }
fn ib(s: &str) -> i64 { i64::from_str_radix(s, 16).unwrap() }

struct Kf { pos: f32, vals: Vec<Option<i64>>, easing: Option<u32> }

fn parse_kfs(v: &lite::Value) -> Vec<Kf> {
    v.list("kfs").iter().map(|k| {
        let o = lite::parse(k);
        let vals = o.list("vals").iter().map(|x| if x == "none" { None } else { Some(ib(x)) }).collect();
        let e = o.get("easing");
        Kf { pos: fb(o.get("pos")), vals, easing: if e == "none" || e.is_empty() { None } else { Some(e[3..].parse().unwrap()) } }
    }).collect()
}

fn timing(v: &lite::Value) -> (f32, f32, Repeat, bool) {
    let d = if v.get("dur").is_empty() { 1.0 } else { fb(v.get("dur")) };
    let dl = if v.get("delay").is_empty() { 0.0 } else { fb(v.get("delay")) };
    let r = match v.get("repeat") { "" | "none" => Repeat::None, "inf" => Repeat::Infinite, n => Repeat::Times(n.parse().unwrap()) };
    (d, dl, r, v.get("reverse") == "true")
}

/// reference for one property: defining keyframes (stable order by position), synthetic 0% / hold-to-100% frames,
/// easing in force at the start keyframe, linear interpolation at the eased fraction.  Returns None when the
/// position is not strictly inside a segment (no claim).
fn reference<T: Copy + Lerp + Default>(kfs: &[Kf], prop: usize, conv: impl Fn(i64) -> T, q: f32, ov: Option<T>, strict: bool) -> Option<Option<T>> {
    let mut idx: Vec<usize> = (0..kfs.len()).collect();
    idx.sort_by(|a, b| kfs[*a].pos.total_cmp(&kfs[*b].pos));
    let def: Vec<usize> = idx.into_iter().filter(|i| kfs[*i].vals[prop].is_some()).collect();
    if def.is_empty() { return Some(None); }
    let mut frames: Vec<(f32, T, u32)> = vec![(0.0, T::default(), 0)];
    let mut cur = 0u32;
    for i in &def {
        if let Some(e) = kfs[*i].easing { cur = e; }
        frames.push((kfs[*i].pos, conv(kfs[*i].vals[prop].unwrap()), cur));
    }
    let last = *frames.last().unwrap();
    frames.push((1.0, last.1, cur));
    if !strict && q >= 1.0 {
        // at 100%: the last defined value (a keyframe at 100% or the held value)
        let n = frames.len();
        let only_zero = n == 3 && frames[1].0 == 0.0; // single defining keyframe at 0%: its (possibly substituted) value is held
        return Some(Some(match ov { Some(o) if only_zero => o, _ => frames[n - 1].1 }));
    }
    for j in 0..frames.len() - 1 {
        let (a, b) = (frames[j], frames[j + 1]);
        let inside = if strict { a.0 < q && q < b.0 } else { a.0 <= q && q < b.0 && a.0 < b.0 };
        if inside {
            let zero_frame = j == 0 || (j == 1 && a.0 == 0.0);
            let va = match ov { Some(o) if zero_frame => o, _ => a.1 };
            let w = (q - a.0) / (b.0 - a.0);
            return Some(Some(va.lerp(&b.1, ease(a.2, w))));
        }
    }
    None
}

macro_rules! build_tl {
    ($S:ident, $kfs:expr, $tm:expr, [$(($idx:expr, $f:ident, $t:ty)),*]) => {{
        let (d, dl, r, rev) = $tm;
        let mut b = $S::timeline().duration_seconds(d).delay_seconds(dl).repeat(r).reverse(rev).default_easing(tag(0));
        for k in $kfs.iter() {
            let mut kb = $S::keyframe(k.pos);
            $( if let Some(v) = k.vals[$idx] { kb = kb.$f(conv::<$t>(v)); } )*
            if let Some(e) = k.easing { kb = kb.easing(tag(e)); }
            b = b.keyframe(kb);
        }
        b.build()
    }};
}

trait FromBits { fn fb(v: i64) -> Self; }
impl FromBits for f32 { fn fb(v: i64) -> f32 { f32::from_bits(v as u32) } }
impl FromBits for u8 { fn fb(v: i64) -> u8 { v as u8 } }
impl FromBits for i16 { fn fb(v: i64) -> i16 { v as u16 as i16 } }
fn conv<T: FromBits>(v: i64) -> T { T::fb(v) }

fn show<T: std::fmt::Debug>(x: &T) -> String { format!("{:?}", x).replace('"', "'") }

fn run(v: &lite::Value) -> String {
    let kind = v.get("kind").to_string();
    let kfs = parse_kfs(v);
    let tm = timing(v);
    let time = if !v.get("time").is_empty() { fb(v.get("time")) } else { tm.1 + fb(v.get("npos")) * tm.0 };
    let ts = TimeScale::new(tm.0, tm.1, tm.2, tm.3);
    let (q, ov_on, tagn) = match ts.get_position(time) {
        TimeScalePosition::NotStarted => (0.0, true, 0),
        TimeScalePosition::Active(p, ls) => (p, !ls.is_repeating && !ls.is_reversing, 1),
        TimeScalePosition::Ended(p) => (p, false, 2),
    };
    let use_ov = v.get("ov") == "true";
    let ovv: Vec<i64> = v.list("ovv").iter().map(|x| ib(x)).collect();
    let s0: Vec<i64> = v.list("s0").iter().map(|x| ib(x)).collect();
    let strict = v.get("strict") != "false";
    let mut mism = vec![];
    macro_rules! cmp {
        ($name:expr, $got:expr, $prior:expr, $prop:expr, $t:ty, $ovi:expr) => {{
            let ovx: Option<$t> = if use_ov && ov_on { Some(conv::<$t>(ovv[$ovi])) } else { None };
            match reference::<$t>(&kfs, $prop, conv::<$t>, q, ovx, strict) {
                Some(Some(e)) => if !(e == $got) { mism.push(format!("{}: got {:?}, reference {:?}", $name, $got, e)); },
                Some(None) => if !($got == $prior) { mism.push(format!("{}: modified to {:?} although no keyframe defines it", $name, $got)); },
                None => {}
            }
        }};
    }
    if kind == "perm_eval" {
        // C11: the same keyframes inserted in two orders must give identical timelines
        let perm: Vec<usize> = v.list("perm").iter().map(|x| x.parse().unwrap()).collect();
        let kfs2: Vec<Kf> = perm.iter().map(|i| Kf { pos: kfs[*i].pos, vals: kfs[*i].vals.clone(), easing: kfs[*i].easing }).collect();
        macro_rules! both {
            ($S:ident, $fields:tt, $prior:expr) => {{
                let a = build_tl!($S, kfs, tm, $fields);
                let b = build_tl!($S, kfs2, tm, $fields);
                let (mut ta, mut tb) = ($prior.clone(), $prior.clone());
                a.update(&mut ta, time); b.update(&mut tb, time);
                let meta = a.delay() == b.delay() && a.duration() == b.duration() && a.repeat() == b.repeat() && a.cycle_duration() == b.cycle_duration();
                let same = format!("{:?}", ta) == format!("{:?}", tb) && meta;
                return format!("{{\"mismatch\":{},\"detail\":\"order A -> {} ; order B -> {}\",\"q\":{}}}", !same, show(&ta), show(&tb), q.to_bits());
            }};
        }
        match v.get("subject") {
            "S1" => both!(S1, [(0, v, f32)], S1 { v: 777.0 }),
            "S2" => both!(S2, [(0, x, f32), (1, y, u8)], S2 { x: 777.0, y: 77 }),
            _ => both!(S3, [(0, a, f32), (1, b, i16)], S3 { a: 777.0, untouched: 555.0, b: 77 }),
        }
    }
    if kind == "merged" {
        // C12: components "cycle;delay;repeat;reverse;mask" (mask: which of S2.x / S2.y the component animates)
        let specs = v.list("comps");
        let mut comps: Vec<S2Timeline> = vec![]; let mut parms = vec![];
        for (k, sp) in specs.iter().enumerate() {
            let p: Vec<&str> = sp.split(';').collect();
            let (d, dl) = (fb(p[0]), fb(p[1]));
            let rep = match p[2] { "none" => Repeat::None, "inf" => Repeat::Infinite, n => Repeat::Times(n.parse().unwrap()) };
            let mut b = S2::timeline().duration_seconds(d).delay_seconds(dl).repeat(rep).reverse(p[3] == "true");
            let mut k0 = S2::keyframe(0.0); let mut k1 = S2::keyframe(1.0);
            if p[4].as_bytes()[0] == b'1' { k0 = k0.x(10.0 * (k as f32 + 1.0)); k1 = k1.x(100.0 * (k as f32 + 1.0)); }
            if p[4].as_bytes()[1] == b'1' { k0 = k0.y(10 * (k as u8 + 1)); k1 = k1.y(50 * (k as u8 + 1)); }
            b = b.keyframe(k0).keyframe(k1);
            comps.push(b.build()); parms.push((d, dl, rep));
        }
        let time = fb(v.get("time"));
        let merged = MergedTimeline::of(comps.clone());
        let mut mism = vec![];
        let (mut a, mut b) = (S2 { x: 777.0, y: 77 }, S2 { x: 777.0, y: 77 });
        merged.update(&mut a, time);
        for c in comps.iter() { c.update(&mut b, time); }
        if a != b { mism.push(format!("update: merged {:?} vs components in order {:?}", a, b)); }
        let src = S2 { x: 5.0, y: 5 };
        let mut m2 = merged.clone(); m2.start_with(&src);
        let (mut a2, mut b2) = (S2 { x: 777.0, y: 77 }, S2 { x: 777.0, y: 77 });
        m2.update(&mut a2, time);
        for c in comps.iter() { let mut c2 = c.clone(); c2.start_with(&src); c2.update(&mut b2, time); }
        if a2 != b2 { mism.push(format!("start_with: merged {:?} vs each component started {:?}", a2, b2)); }
        // purity of the merged evaluation (C09): another prior target gives the same animated properties; evaluating twice is idempotent
        let animated_x = specs.iter().any(|sp| sp.split(';').nth(4).map(|m| m.as_bytes()[0] == b'1').unwrap_or(false));
        let animated_y = specs.iter().any(|sp| sp.split(';').nth(4).map(|m| m.as_bytes()[1] == b'1').unwrap_or(false));
        let mut other = S2 { x: -123.5, y: 201 };
        merged.update(&mut other, time);
        let mut pure_detail = String::new();
        if (animated_x && other.x != a.x) || (animated_y && other.y != a.y) {
            pure_detail = format!("merged.update at t = {} depends on the prior contents of the target: {:?} from S2 {{ x: 777.0, y: 77 }}, {:?} from S2 {{ x: -123.5, y: 201 }}", time, a, other);
        }
        let mut again = a.clone(); merged.update(&mut again, time);
        if again != a && pure_detail.is_empty() { pure_detail = format!("evaluating twice is not idempotent: {:?} then {:?}", a, again); }
        if v.get("want") == "purity" {
            return format!("{{\"mismatch\":{},\"detail\":\"{}\"}}", !pure_detail.is_empty(), pure_detail.replace('"', "'"));
        }
        let ord = |r: &Repeat| match r { Repeat::None => 0u64, Repeat::Times(n) => *n as u64, Repeat::Infinite => u32::MAX as u64 };
        if parms.is_empty() {
            if merged.delay() != 0.0 || merged.duration() != 0.0 || merged.repeat() != Repeat::None || merged.cycle_duration().is_some() { mism.push("empty list aggregates".to_string()); }
        } else {
            let dmin = parms.iter().map(|p| p.1).fold(f32::INFINITY, f32::min);
            let tot = |p: &(f32, f32, Repeat)| match p.2 { Repeat::Infinite => f32::INFINITY, Repeat::None => p.1 + p.0, Repeat::Times(n) => p.1 + p.0 * (n as u64 + 1) as f32 };
            let dmax = parms.iter().map(|p| tot(p)).fold(0.0f32, f32::max);
            let rmax = parms.iter().map(|p| ord(&p.2)).max().unwrap();
            let all_eq = parms.iter().all(|p| p.0 == parms[0].0);
            if merged.delay() != dmin { mism.push(format!("delay {:?} != min {:?}", merged.delay(), dmin)); }
            if merged.duration() != dmax { mism.push(format!("duration {:?} != max {:?}", merged.duration(), dmax)); }
            if ord(&merged.repeat()) != rmax { mism.push(format!("repeat {:?} is not the largest", merged.repeat())); }
            if merged.cycle_duration().is_some() != all_eq || (all_eq && merged.cycle_duration() != Some(parms[0].0)) { mism.push(format!("cycle_duration {:?} with component cycles {:?}", merged.cycle_duration(), parms.iter().map(|p| p.0).collect::<Vec<_>>())); }
        }
        return format!("{{\"mismatch\":{},\"detail\":\"{}\"}}", !mism.is_empty(), mism.join("; ").replace('"', "'"));
    }
    if kind == "twin_eval" || kind == "purity" {
        macro_rules! twin {
            ($S:ident, $fields:tt, $mk:expr, $prior:expr, $prior2:expr) => {{
                let plain = build_tl!($S, kfs, tm, $fields);
                let mut sub = plain.clone();
                let src = $mk;
                sub.start_with(&src);
                let (mut a, mut b) = ($prior.clone(), $prior.clone());
                plain.update(&mut a, time); sub.update(&mut b, time);
                // purity probes: second evaluation, other prior contents, clone, repeated start_with
                let mut b2 = $prior2.clone(); sub.update(&mut b2, time);
                let mut b3 = b.clone(); sub.update(&mut b3, time);
                let mut cl = sub.clone(); let mut b4 = $prior.clone(); cl.update(&mut b4, time);
                cl.start_with(&$prior2); cl.start_with(&src); let mut b5 = $prior.clone(); cl.update(&mut b5, time);
                let meta = plain.delay() == sub.delay() && plain.duration() == sub.duration() && plain.repeat() == sub.repeat() && plain.cycle_duration() == sub.cycle_duration();
                return format!("{{\"q\":{},\"ov_on\":{},\"tag\":{},\"plain\":\"{}\",\"sub\":\"{}\",\"src\":\"{}\",\"same\":{},\"idempotent\":{},\"clone_same\":{},\"restart_same\":{},\"other_prior\":\"{}\",\"meta_same\":{}}}",
                    q.to_bits(), ov_on, tagn, show(&a), show(&b), show(&src), a == b, b == b3, b == b4, b == b5, show(&b2), meta);
            }};
        }
        match v.get("subject") {
            "S1" => twin!(S1, [(0, v, f32)], S1 { v: conv(ovv[0]) }, S1 { v: 777.0 }, S1 { v: -5.0 }),
            "S2" => twin!(S2, [(0, x, f32), (1, y, u8)], S2 { x: conv(ovv[0]), y: conv(ovv[1]) }, S2 { x: 777.0, y: 77 }, S2 { x: -5.0, y: 3 }),
            _ => twin!(S3, [(0, a, f32), (1, b, i16)], S3 { a: conv(ovv[0]), untouched: conv(ovv[1]), b: conv(ovv[2]) }, S3 { a: 777.0, untouched: 555.0, b: 77 }, S3 { a: -5.0, untouched: 1.0, b: 3 }),
        }
    }
    match v.get("subject") {
        "S1" => {
            let mut tl = build_tl!(S1, kfs, tm, [(0, v, f32)]);
            if use_ov { tl.start_with(&S1 { v: conv(ovv[0]) }); }
            let prior = S1 { v: if s0.is_empty() { 777.0 } else { conv(s0[0]) } };
            let mut t = prior.clone();
            tl.update(&mut t, time);
            cmp!("v", t.v, prior.v, 0, f32, 0);
            format!("{{\"mismatch\":{},\"detail\":\"{}\",\"q\":{},\"out\":\"{}\"}}", !mism.is_empty(), mism.join("; "), q.to_bits(), show(&t))
        }
        "S2" => {
            let mut tl = build_tl!(S2, kfs, tm, [(0, x, f32), (1, y, u8)]);
            if use_ov { tl.start_with(&S2 { x: conv(ovv[0]), y: conv(ovv[1]) }); }
            let prior = if s0.is_empty() { S2 { x: 777.0, y: 77 } } else { S2 { x: conv(s0[0]), y: conv(s0[1]) } };
            let mut t = prior.clone();
            tl.update(&mut t, time);
            cmp!("x", t.x, prior.x, 0, f32, 0);
            cmp!("y", t.y, prior.y, 1, u8, 1);
            format!("{{\"mismatch\":{},\"detail\":\"{}\",\"q\":{},\"out\":\"{}\"}}", !mism.is_empty(), mism.join("; "), q.to_bits(), show(&t))
        }
        "S3" => {
            let mut tl = if v.get("via_from") == "true" {
                // keyframes that copy whole values through Animate::keyframe_from
                let (d, dl, r, rev) = tm;
                let mut b = S3::timeline().duration_seconds(d).delay_seconds(dl).repeat(r).reverse(rev).default_easing(tag(0));
                for k in kfs.iter() {
                    let src = S3 { a: conv(k.vals[0].unwrap_or(0)), untouched: 99.0, b: conv(k.vals[1].unwrap_or(0)) };
                    b = b.keyframe(S3::keyframe_from(&src, k.pos));
                }
                b.build()
            } else { build_tl!(S3, kfs, tm, [(0, a, f32), (1, b, i16)]) };
            if use_ov { tl.start_with(&S3 { a: conv(ovv[0]), untouched: conv(ovv[1]), b: conv(ovv[2]) }); }
            let prior = if s0.is_empty() { S3 { a: 777.0, untouched: 555.0, b: 77 } } else { S3 { a: conv(s0[0]), untouched: conv(s0[1]), b: conv(s0[2]) } };
            let mut t = prior.clone();
            tl.update(&mut t, time);
            cmp!("a", t.a, prior.a, 0, f32, 0);
            cmp!("b", t.b, prior.b, 1, i16, 2);
            if t.untouched.to_bits() != prior.untouched.to_bits() { mism.push(format!("untouched field modified to {:?}", t.untouched)); }
            format!("{{\"mismatch\":{},\"detail\":\"{}\",\"q\":{},\"out\":\"{}\"}}", !mism.is_empty(), mism.join("; "), q.to_bits(), show(&t))
        }
        s => format!("{{\"error\":\"unknown subject {} kind {}\"}}", s, kind),
    }
}

fn main() {
    panic::set_hook(Box::new(|_| {}));
    let stdin = io::stdin();
    for line in stdin.lock().lines() {
        let line = line.unwrap();
        if line.trim().is_empty() { continue; }
        let v = lite::parse(&line);
        let r = panic::catch_unwind(panic::AssertUnwindSafe(|| run(&v)));
        match r {
            Ok(s) => println!("{}", s),
            Err(e) => {
                let msg = e.downcast_ref::<String>().cloned().or_else(|| e.downcast_ref::<&str>().map(|s| s.to_string())).unwrap_or_default();
                println!("{{\"panic\":true,\"mismatch\":true,\"detail\":\"panic: {}\"}}", msg.replace('"', "'").replace('\\', "/"));
            }
        }
    }
}
