//! GENERATED. Native comparison of macro-built and builder-built values (replay of C15/C16 counterexamples).
use mina::prelude::*;
use subjects::*;
use std::panic;
fn probe(t: &dyn Timeline<Target = M2>) -> String {
    let mut out = format!("{:?}/{:?}/{:?}/{:?}", t.delay(), t.duration(), t.repeat(), t.cycle_duration());
    // a zero-length cycle is not a configuration that can be evaluated (the position is NaN): compare metadata and Debug output only
    let valid = t.cycle_duration().map_or(true, |c| c > 0.0);
    if valid { for k in 0..41 { let mut v = M2 { x: -3.0, y: 33 }; t.update(&mut v, k as f32 * 0.173); out += &format!("|{:?}", v); } }
    out
}
fn drive(a: &mut dyn StateAnimator<State = St, Values = M2>) -> String {
    let mut out = String::new();
    let ops: [(i32, f32); 12] = [(-1, 0.0), (-1, 0.4), (1, 0.0), (-1, 0.3), (2, 0.0), (-1, 0.7), (0, 0.0), (-1, 0.25), (3, 0.0), (-1, 1.5), (1, 0.0), (-1, 2.5)];
    for (s, dt) in ops { if s < 0 { a.advance(dt); } else { a.set_state(&[St::A, St::B, St::C, St::D][s as usize]); }
        out += &format!("|{:?}/{:?}/{}", a.current_values(), a.current_state(), a.is_ended()); }
    out
}
fn main() {
    let which: Vec<String> = std::env::args().skip(1).collect();
    if which.is_empty() || which.contains(&"t0".to_string()) { println!("t0 {}", probe(&t_m0()) == probe(&t_b0()) && format!("{:?}", t_m0()) == format!("{:?}", t_b0())); }
    if which.is_empty() || which.contains(&"t1".to_string()) { println!("t1 {}", probe(&t_m1()) == probe(&t_b1()) && format!("{:?}", t_m1()) == format!("{:?}", t_b1())); }
    if which.is_empty() || which.contains(&"t2".to_string()) { println!("t2 {}", probe(&t_m2()) == probe(&t_b2()) && format!("{:?}", t_m2()) == format!("{:?}", t_b2())); }
    if which.is_empty() || which.contains(&"t3".to_string()) { println!("t3 {}", probe(&t_m3()) == probe(&t_b3()) && format!("{:?}", t_m3()) == format!("{:?}", t_b3())); }
    if which.is_empty() || which.contains(&"t4".to_string()) { println!("t4 {}", probe(&t_m4()) == probe(&t_b4()) && format!("{:?}", t_m4()) == format!("{:?}", t_b4())); }
    if which.is_empty() || which.contains(&"t5".to_string()) { println!("t5 {}", probe(&t_m5()) == probe(&t_b5()) && format!("{:?}", t_m5()) == format!("{:?}", t_b5())); }
    if which.is_empty() || which.contains(&"t6".to_string()) { println!("t6 {}", probe(&t_m6()) == probe(&t_b6()) && format!("{:?}", t_m6()) == format!("{:?}", t_b6())); }
    if which.is_empty() || which.contains(&"t7".to_string()) { println!("t7 {}", probe(&t_m7()) == probe(&t_b7()) && format!("{:?}", t_m7()) == format!("{:?}", t_b7())); }
    if which.is_empty() || which.contains(&"t8".to_string()) { println!("t8 {}", probe(&t_m8()) == probe(&t_b8()) && format!("{:?}", t_m8()) == format!("{:?}", t_b8())); }
    if which.is_empty() || which.contains(&"t9".to_string()) { println!("t9 {}", probe(&t_m9()) == probe(&t_b9()) && format!("{:?}", t_m9()) == format!("{:?}", t_b9())); }
    if which.is_empty() || which.contains(&"t10".to_string()) { println!("t10 {}", probe(&t_m10()) == probe(&t_b10()) && format!("{:?}", t_m10()) == format!("{:?}", t_b10())); }
    if which.is_empty() || which.contains(&"t11".to_string()) { println!("t11 {}", probe(&t_m11()) == probe(&t_b11()) && format!("{:?}", t_m11()) == format!("{:?}", t_b11())); }
    if which.is_empty() || which.contains(&"t12".to_string()) { println!("t12 {}", probe(&t_m12()) == probe(&t_b12()) && format!("{:?}", t_m12()) == format!("{:?}", t_b12())); }
    if which.is_empty() || which.contains(&"t13".to_string()) { println!("t13 {}", probe(&t_m13()) == probe(&t_b13()) && format!("{:?}", t_m13()) == format!("{:?}", t_b13())); }
    if which.is_empty() || which.contains(&"t14".to_string()) { println!("t14 {}", probe(&t_m14()) == probe(&t_b14()) && format!("{:?}", t_m14()) == format!("{:?}", t_b14())); }
    if which.is_empty() || which.contains(&"t15".to_string()) { println!("t15 {}", probe(&t_m15()) == probe(&t_b15()) && format!("{:?}", t_m15()) == format!("{:?}", t_b15())); }
    if which.is_empty() || which.contains(&"t16".to_string()) { println!("t16 {}", probe(&t_m16()) == probe(&t_b16()) && format!("{:?}", t_m16()) == format!("{:?}", t_b16())); }
    if which.is_empty() || which.contains(&"t17".to_string()) { println!("t17 {}", probe(&t_m17()) == probe(&t_b17()) && format!("{:?}", t_m17()) == format!("{:?}", t_b17())); }
    if which.is_empty() || which.contains(&"t18".to_string()) { println!("t18 {}", probe(&t_m18()) == probe(&t_b18()) && format!("{:?}", t_m18()) == format!("{:?}", t_b18())); }
    if which.is_empty() || which.contains(&"t19".to_string()) { println!("t19 {}", probe(&t_m19()) == probe(&t_b19()) && format!("{:?}", t_m19()) == format!("{:?}", t_b19())); }
    if which.is_empty() || which.contains(&"t20".to_string()) { println!("t20 {}", probe(&t_m20()) == probe(&t_b20()) && format!("{:?}", t_m20()) == format!("{:?}", t_b20())); }
    if which.is_empty() || which.contains(&"t21".to_string()) { println!("t21 {}", probe(&t_m21()) == probe(&t_b21()) && format!("{:?}", t_m21()) == format!("{:?}", t_b21())); }
    if which.is_empty() || which.contains(&"t22".to_string()) { println!("t22 {}", probe(&t_m22()) == probe(&t_b22()) && format!("{:?}", t_m22()) == format!("{:?}", t_b22())); }
    if which.is_empty() || which.contains(&"t23".to_string()) { println!("t23 {}", probe(&t_m23()) == probe(&t_b23()) && format!("{:?}", t_m23()) == format!("{:?}", t_b23())); }
    if which.is_empty() || which.contains(&"t24".to_string()) { println!("t24 {}", probe(&t_m24()) == probe(&t_b24()) && format!("{:?}", t_m24()) == format!("{:?}", t_b24())); }
    if which.is_empty() || which.contains(&"t25".to_string()) { println!("t25 {}", probe(&t_m25()) == probe(&t_b25()) && format!("{:?}", t_m25()) == format!("{:?}", t_b25())); }
    if which.is_empty() || which.contains(&"t26".to_string()) { println!("t26 {}", probe(&t_m26()) == probe(&t_b26()) && format!("{:?}", t_m26()) == format!("{:?}", t_b26())); }
    if which.is_empty() || which.contains(&"t27".to_string()) { println!("t27 {}", probe(&t_m27()) == probe(&t_b27()) && format!("{:?}", t_m27()) == format!("{:?}", t_b27())); }
    if which.is_empty() || which.contains(&"t28".to_string()) { println!("t28 {}", probe(&t_m28()) == probe(&t_b28()) && format!("{:?}", t_m28()) == format!("{:?}", t_b28())); }
    if which.is_empty() || which.contains(&"t29".to_string()) { println!("t29 {}", probe(&t_m29()) == probe(&t_b29()) && format!("{:?}", t_m29()) == format!("{:?}", t_b29())); }
    if which.is_empty() || which.contains(&"t30".to_string()) { println!("t30 {}", probe(&t_m30()) == probe(&t_b30()) && format!("{:?}", t_m30()) == format!("{:?}", t_b30())); }
    if which.is_empty() || which.contains(&"t31".to_string()) { println!("t31 {}", probe(&t_m31()) == probe(&t_b31()) && format!("{:?}", t_m31()) == format!("{:?}", t_b31())); }
    if which.is_empty() || which.contains(&"t32".to_string()) { println!("t32 {}", probe(&t_m32()) == probe(&t_b32()) && format!("{:?}", t_m32()) == format!("{:?}", t_b32())); }
    if which.is_empty() || which.contains(&"t33".to_string()) { println!("t33 {}", probe(&t_m33()) == probe(&t_b33()) && format!("{:?}", t_m33()) == format!("{:?}", t_b33())); }
    if which.is_empty() || which.contains(&"t34".to_string()) { println!("t34 {}", probe(&t_m34()) == probe(&t_b34()) && format!("{:?}", t_m34()) == format!("{:?}", t_b34())); }
    if which.is_empty() || which.contains(&"t35".to_string()) { println!("t35 {}", probe(&t_m35()) == probe(&t_b35()) && format!("{:?}", t_m35()) == format!("{:?}", t_b35())); }
    if which.is_empty() || which.contains(&"t36".to_string()) { println!("t36 {}", probe(&t_m36()) == probe(&t_b36()) && format!("{:?}", t_m36()) == format!("{:?}", t_b36())); }
    if which.is_empty() || which.contains(&"t37".to_string()) { println!("t37 {}", probe(&t_m37()) == probe(&t_b37()) && format!("{:?}", t_m37()) == format!("{:?}", t_b37())); }
    if which.is_empty() || which.contains(&"t38".to_string()) { println!("t38 {}", probe(&t_m38()) == probe(&t_b38()) && format!("{:?}", t_m38()) == format!("{:?}", t_b38())); }
    if which.is_empty() || which.contains(&"t39".to_string()) { println!("t39 {}", probe(&t_m39()) == probe(&t_b39()) && format!("{:?}", t_m39()) == format!("{:?}", t_b39())); }
    if which.is_empty() || which.contains(&"t40".to_string()) { println!("t40 {}", probe(&t_m40()) == probe(&t_b40()) && format!("{:?}", t_m40()) == format!("{:?}", t_b40())); }
    if which.is_empty() || which.contains(&"t41".to_string()) { println!("t41 {}", probe(&t_m41()) == probe(&t_b41()) && format!("{:?}", t_m41()) == format!("{:?}", t_b41())); }
    if which.is_empty() || which.contains(&"t42".to_string()) { println!("t42 {}", probe(&t_m42()) == probe(&t_b42()) && format!("{:?}", t_m42()) == format!("{:?}", t_b42())); }
    if which.is_empty() || which.contains(&"t43".to_string()) { println!("t43 {}", probe(&t_m43()) == probe(&t_b43()) && format!("{:?}", t_m43()) == format!("{:?}", t_b43())); }
    if which.is_empty() || which.contains(&"t44".to_string()) { println!("t44 {}", probe(&t_m44()) == probe(&t_b44()) && format!("{:?}", t_m44()) == format!("{:?}", t_b44())); }
    if which.is_empty() || which.contains(&"t45".to_string()) { println!("t45 {}", probe(&t_m45()) == probe(&t_b45()) && format!("{:?}", t_m45()) == format!("{:?}", t_b45())); }
    if which.is_empty() || which.contains(&"t46".to_string()) { println!("t46 {}", probe(&t_m46()) == probe(&t_b46()) && format!("{:?}", t_m46()) == format!("{:?}", t_b46())); }
    if which.is_empty() || which.contains(&"t47".to_string()) { println!("t47 {}", probe(&t_m47()) == probe(&t_b47()) && format!("{:?}", t_m47()) == format!("{:?}", t_b47())); }
    if which.is_empty() || which.contains(&"t48".to_string()) { println!("t48 {}", probe(&t_m48()) == probe(&t_b48()) && format!("{:?}", t_m48()) == format!("{:?}", t_b48())); }
    if which.is_empty() || which.contains(&"t49".to_string()) { println!("t49 {}", probe(&t_m49()) == probe(&t_b49()) && format!("{:?}", t_m49()) == format!("{:?}", t_b49())); }
    if which.is_empty() || which.contains(&"t50".to_string()) { println!("t50 {}", probe(&t_m50()) == probe(&t_b50()) && format!("{:?}", t_m50()) == format!("{:?}", t_b50())); }
    if which.is_empty() || which.contains(&"t51".to_string()) { println!("t51 {}", probe(&t_m51()) == probe(&t_b51()) && format!("{:?}", t_m51()) == format!("{:?}", t_b51())); }
    if which.is_empty() || which.contains(&"t52".to_string()) { println!("t52 {}", probe(&t_m52()) == probe(&t_b52()) && format!("{:?}", t_m52()) == format!("{:?}", t_b52())); }
    if which.is_empty() || which.contains(&"t53".to_string()) { println!("t53 {}", probe(&t_m53()) == probe(&t_b53()) && format!("{:?}", t_m53()) == format!("{:?}", t_b53())); }
    if which.is_empty() || which.contains(&"t54".to_string()) { println!("t54 {}", probe(&t_m54()) == probe(&t_b54()) && format!("{:?}", t_m54()) == format!("{:?}", t_b54())); }
    if which.is_empty() || which.contains(&"t55".to_string()) { println!("t55 {}", probe(&t_m55()) == probe(&t_b55()) && format!("{:?}", t_m55()) == format!("{:?}", t_b55())); }
    if which.is_empty() || which.contains(&"t56".to_string()) { println!("t56 {}", probe(&t_m56()) == probe(&t_b56()) && format!("{:?}", t_m56()) == format!("{:?}", t_b56())); }
    if which.is_empty() || which.contains(&"t57".to_string()) { println!("t57 {}", probe(&t_m57()) == probe(&t_b57()) && format!("{:?}", t_m57()) == format!("{:?}", t_b57())); }
    if which.is_empty() || which.contains(&"t58".to_string()) { println!("t58 {}", probe(&t_m58()) == probe(&t_b58()) && format!("{:?}", t_m58()) == format!("{:?}", t_b58())); }
    if which.is_empty() || which.contains(&"t59".to_string()) { println!("t59 {}", probe(&t_m59()) == probe(&t_b59()) && format!("{:?}", t_m59()) == format!("{:?}", t_b59())); }
    if which.is_empty() || which.contains(&"t60".to_string()) { println!("t60 {}", probe(&t_m60()) == probe(&t_b60()) && format!("{:?}", t_m60()) == format!("{:?}", t_b60())); }
    if which.is_empty() || which.contains(&"t61".to_string()) { println!("t61 {}", probe(&t_m61()) == probe(&t_b61()) && format!("{:?}", t_m61()) == format!("{:?}", t_b61())); }
    if which.is_empty() || which.contains(&"t62".to_string()) { println!("t62 {}", probe(&t_m62()) == probe(&t_b62()) && format!("{:?}", t_m62()) == format!("{:?}", t_b62())); }
    if which.is_empty() || which.contains(&"t63".to_string()) { println!("t63 {}", probe(&t_m63()) == probe(&t_b63()) && format!("{:?}", t_m63()) == format!("{:?}", t_b63())); }
    if which.is_empty() || which.contains(&"t64".to_string()) { println!("t64 {}", probe(&t_m64()) == probe(&t_b64()) && format!("{:?}", t_m64()) == format!("{:?}", t_b64())); }
    if which.is_empty() || which.contains(&"t65".to_string()) { println!("t65 {}", probe(&t_m65()) == probe(&t_b65()) && format!("{:?}", t_m65()) == format!("{:?}", t_b65())); }
    if which.is_empty() || which.contains(&"t66".to_string()) { println!("t66 {}", probe(&t_m66()) == probe(&t_b66()) && format!("{:?}", t_m66()) == format!("{:?}", t_b66())); }
    if which.is_empty() || which.contains(&"t67".to_string()) { println!("t67 {}", probe(&t_m67()) == probe(&t_b67()) && format!("{:?}", t_m67()) == format!("{:?}", t_b67())); }
    if which.is_empty() || which.contains(&"t68".to_string()) { println!("t68 {}", probe(&t_m68()) == probe(&t_b68()) && format!("{:?}", t_m68()) == format!("{:?}", t_b68())); }
    if which.is_empty() || which.contains(&"t69".to_string()) { println!("t69 {}", probe(&t_m69()) == probe(&t_b69()) && format!("{:?}", t_m69()) == format!("{:?}", t_b69())); }
    if which.is_empty() || which.contains(&"t70".to_string()) { println!("t70 {}", probe(&t_m70()) == probe(&t_b70()) && format!("{:?}", t_m70()) == format!("{:?}", t_b70())); }
    if which.is_empty() || which.contains(&"t71".to_string()) { println!("t71 {}", probe(&t_m71()) == probe(&t_b71()) && format!("{:?}", t_m71()) == format!("{:?}", t_b71())); }
    if which.is_empty() || which.contains(&"t72".to_string()) { println!("t72 {}", probe(&t_m72()) == probe(&t_b72()) && format!("{:?}", t_m72()) == format!("{:?}", t_b72())); }
    if which.is_empty() || which.contains(&"t73".to_string()) { println!("t73 {}", probe(&t_m73()) == probe(&t_b73()) && format!("{:?}", t_m73()) == format!("{:?}", t_b73())); }
    if which.is_empty() || which.contains(&"t74".to_string()) { println!("t74 {}", probe(&t_m74()) == probe(&t_b74()) && format!("{:?}", t_m74()) == format!("{:?}", t_b74())); }
    if which.is_empty() || which.contains(&"t75".to_string()) { println!("t75 {}", probe(&t_m75()) == probe(&t_b75()) && format!("{:?}", t_m75()) == format!("{:?}", t_b75())); }
    if which.is_empty() || which.contains(&"t76".to_string()) { println!("t76 {}", probe(&t_m76()) == probe(&t_b76()) && format!("{:?}", t_m76()) == format!("{:?}", t_b76())); }
    if which.is_empty() || which.contains(&"t77".to_string()) { println!("t77 {}", probe(&t_m77()) == probe(&t_b77()) && format!("{:?}", t_m77()) == format!("{:?}", t_b77())); }
    if which.is_empty() || which.contains(&"t78".to_string()) { println!("t78 {}", probe(&t_m78()) == probe(&t_b78()) && format!("{:?}", t_m78()) == format!("{:?}", t_b78())); }
    if which.is_empty() || which.contains(&"t79".to_string()) { println!("t79 {}", probe(&t_m79()) == probe(&t_b79()) && format!("{:?}", t_m79()) == format!("{:?}", t_b79())); }
    if which.is_empty() || which.contains(&"t80".to_string()) { println!("t80 {}", probe(&t_m80()) == probe(&t_b80()) && format!("{:?}", t_m80()) == format!("{:?}", t_b80())); }
    if which.is_empty() || which.contains(&"t81".to_string()) { println!("t81 {}", probe(&t_m81()) == probe(&t_b81()) && format!("{:?}", t_m81()) == format!("{:?}", t_b81())); }
    if which.is_empty() || which.contains(&"t82".to_string()) { println!("t82 {}", probe(&t_m82()) == probe(&t_b82()) && format!("{:?}", t_m82()) == format!("{:?}", t_b82())); }
    if which.is_empty() || which.contains(&"t83".to_string()) { println!("t83 {}", probe(&t_m83()) == probe(&t_b83()) && format!("{:?}", t_m83()) == format!("{:?}", t_b83())); }
    if which.is_empty() || which.contains(&"t84".to_string()) { println!("t84 {}", probe(&t_m84()) == probe(&t_b84()) && format!("{:?}", t_m84()) == format!("{:?}", t_b84())); }
    if which.is_empty() || which.contains(&"t85".to_string()) { println!("t85 {}", probe(&t_m85()) == probe(&t_b85()) && format!("{:?}", t_m85()) == format!("{:?}", t_b85())); }
    if which.is_empty() || which.contains(&"t86".to_string()) { println!("t86 {}", probe(&t_m86()) == probe(&t_b86()) && format!("{:?}", t_m86()) == format!("{:?}", t_b86())); }
    if which.is_empty() || which.contains(&"t87".to_string()) { println!("t87 {}", probe(&t_m87()) == probe(&t_b87()) && format!("{:?}", t_m87()) == format!("{:?}", t_b87())); }
    if which.is_empty() || which.contains(&"t88".to_string()) { println!("t88 {}", probe(&t_m88()) == probe(&t_b88()) && format!("{:?}", t_m88()) == format!("{:?}", t_b88())); }
    if which.is_empty() || which.contains(&"t89".to_string()) { println!("t89 {}", probe(&t_m89()) == probe(&t_b89()) && format!("{:?}", t_m89()) == format!("{:?}", t_b89())); }
    if which.is_empty() || which.contains(&"t90".to_string()) { println!("t90 {}", probe(&t_m90()) == probe(&t_b90()) && format!("{:?}", t_m90()) == format!("{:?}", t_b90())); }
    if which.is_empty() || which.contains(&"t91".to_string()) { println!("t91 {}", probe(&t_m91()) == probe(&t_b91()) && format!("{:?}", t_m91()) == format!("{:?}", t_b91())); }
    if which.is_empty() || which.contains(&"t92".to_string()) { println!("t92 {}", probe(&t_m92()) == probe(&t_b92()) && format!("{:?}", t_m92()) == format!("{:?}", t_b92())); }
    if which.is_empty() || which.contains(&"t93".to_string()) { println!("t93 {}", probe(&t_m93()) == probe(&t_b93()) && format!("{:?}", t_m93()) == format!("{:?}", t_b93())); }
    if which.is_empty() || which.contains(&"t94".to_string()) { println!("t94 {}", probe(&t_m94()) == probe(&t_b94()) && format!("{:?}", t_m94()) == format!("{:?}", t_b94())); }
    if which.is_empty() || which.contains(&"t95".to_string()) { println!("t95 {}", probe(&t_m95()) == probe(&t_b95()) && format!("{:?}", t_m95()) == format!("{:?}", t_b95())); }
    if which.is_empty() || which.contains(&"t96".to_string()) { println!("t96 {}", probe(&t_m96()) == probe(&t_b96()) && format!("{:?}", t_m96()) == format!("{:?}", t_b96())); }
    if which.is_empty() || which.contains(&"t97".to_string()) { println!("t97 {}", probe(&t_m97()) == probe(&t_b97()) && format!("{:?}", t_m97()) == format!("{:?}", t_b97())); }
    if which.is_empty() || which.contains(&"t98".to_string()) { println!("t98 {}", probe(&t_m98()) == probe(&t_b98()) && format!("{:?}", t_m98()) == format!("{:?}", t_b98())); }
    if which.is_empty() || which.contains(&"t99".to_string()) { println!("t99 {}", probe(&t_m99()) == probe(&t_b99()) && format!("{:?}", t_m99()) == format!("{:?}", t_b99())); }
    if which.is_empty() || which.contains(&"t100".to_string()) { println!("t100 {}", probe(&t_m100()) == probe(&t_b100()) && format!("{:?}", t_m100()) == format!("{:?}", t_b100())); }
    if which.is_empty() || which.contains(&"t101".to_string()) { println!("t101 {}", probe(&t_m101()) == probe(&t_b101()) && format!("{:?}", t_m101()) == format!("{:?}", t_b101())); }
    if which.is_empty() || which.contains(&"t102".to_string()) { println!("t102 {}", probe(&t_m102()) == probe(&t_b102()) && format!("{:?}", t_m102()) == format!("{:?}", t_b102())); }
    if which.is_empty() || which.contains(&"t103".to_string()) { println!("t103 {}", probe(&t_m103()) == probe(&t_b103()) && format!("{:?}", t_m103()) == format!("{:?}", t_b103())); }
    if which.is_empty() || which.contains(&"t104".to_string()) { println!("t104 {}", probe(&t_m104()) == probe(&t_b104()) && format!("{:?}", t_m104()) == format!("{:?}", t_b104())); }
    if which.is_empty() || which.contains(&"t105".to_string()) { println!("t105 {}", probe(&t_m105()) == probe(&t_b105()) && format!("{:?}", t_m105()) == format!("{:?}", t_b105())); }
    if which.is_empty() || which.contains(&"t106".to_string()) { println!("t106 {}", probe(&t_m106()) == probe(&t_b106()) && format!("{:?}", t_m106()) == format!("{:?}", t_b106())); }
    if which.is_empty() || which.contains(&"t107".to_string()) { println!("t107 {}", probe(&t_m107()) == probe(&t_b107()) && format!("{:?}", t_m107()) == format!("{:?}", t_b107())); }
    if which.is_empty() || which.contains(&"t108".to_string()) { println!("t108 {}", probe(&t_m108()) == probe(&t_b108()) && format!("{:?}", t_m108()) == format!("{:?}", t_b108())); }
    if which.is_empty() || which.contains(&"t109".to_string()) { println!("t109 {}", probe(&t_m109()) == probe(&t_b109()) && format!("{:?}", t_m109()) == format!("{:?}", t_b109())); }
    if which.is_empty() || which.contains(&"t110".to_string()) { println!("t110 {}", probe(&t_m110()) == probe(&t_b110()) && format!("{:?}", t_m110()) == format!("{:?}", t_b110())); }
    if which.is_empty() || which.contains(&"t111".to_string()) { println!("t111 {}", probe(&t_m111()) == probe(&t_b111()) && format!("{:?}", t_m111()) == format!("{:?}", t_b111())); }
    if which.is_empty() || which.contains(&"t112".to_string()) { println!("t112 {}", probe(&t_m112()) == probe(&t_b112()) && format!("{:?}", t_m112()) == format!("{:?}", t_b112())); }
    if which.is_empty() || which.contains(&"t113".to_string()) { println!("t113 {}", probe(&t_m113()) == probe(&t_b113()) && format!("{:?}", t_m113()) == format!("{:?}", t_b113())); }
    if which.is_empty() || which.contains(&"t114".to_string()) { println!("t114 {}", probe(&t_m114()) == probe(&t_b114()) && format!("{:?}", t_m114()) == format!("{:?}", t_b114())); }
    if which.is_empty() || which.contains(&"t115".to_string()) { println!("t115 {}", probe(&t_m115()) == probe(&t_b115()) && format!("{:?}", t_m115()) == format!("{:?}", t_b115())); }
    if which.is_empty() || which.contains(&"t116".to_string()) { println!("t116 {}", probe(&t_m116()) == probe(&t_b116()) && format!("{:?}", t_m116()) == format!("{:?}", t_b116())); }
    if which.is_empty() || which.contains(&"t117".to_string()) { println!("t117 {}", probe(&t_m117()) == probe(&t_b117()) && format!("{:?}", t_m117()) == format!("{:?}", t_b117())); }
    if which.is_empty() || which.contains(&"t118".to_string()) { println!("t118 {}", probe(&t_m118()) == probe(&t_b118()) && format!("{:?}", t_m118()) == format!("{:?}", t_b118())); }
    if which.is_empty() || which.contains(&"t119".to_string()) { println!("t119 {}", probe(&t_m119()) == probe(&t_b119()) && format!("{:?}", t_m119()) == format!("{:?}", t_b119())); }
    if which.is_empty() || which.contains(&"t120".to_string()) { println!("t120 {}", probe(&t_m120()) == probe(&t_b120()) && format!("{:?}", t_m120()) == format!("{:?}", t_b120())); }
    if which.is_empty() || which.contains(&"t121".to_string()) { println!("t121 {}", probe(&t_m121()) == probe(&t_b121()) && format!("{:?}", t_m121()) == format!("{:?}", t_b121())); }
    if which.is_empty() || which.contains(&"t122".to_string()) { println!("t122 {}", probe(&t_m122()) == probe(&t_b122()) && format!("{:?}", t_m122()) == format!("{:?}", t_b122())); }
    if which.is_empty() || which.contains(&"t123".to_string()) { println!("t123 {}", probe(&t_m123()) == probe(&t_b123()) && format!("{:?}", t_m123()) == format!("{:?}", t_b123())); }
    if which.is_empty() || which.contains(&"t124".to_string()) { println!("t124 {}", probe(&t_m124()) == probe(&t_b124()) && format!("{:?}", t_m124()) == format!("{:?}", t_b124())); }
    if which.is_empty() || which.contains(&"t125".to_string()) { println!("t125 {}", probe(&t_m125()) == probe(&t_b125()) && format!("{:?}", t_m125()) == format!("{:?}", t_b125())); }
    if which.is_empty() || which.contains(&"t126".to_string()) { println!("t126 {}", probe(&t_m126()) == probe(&t_b126()) && format!("{:?}", t_m126()) == format!("{:?}", t_b126())); }
    if which.is_empty() || which.contains(&"t127".to_string()) { println!("t127 {}", probe(&t_m127()) == probe(&t_b127()) && format!("{:?}", t_m127()) == format!("{:?}", t_b127())); }
    if which.is_empty() || which.contains(&"t128".to_string()) { println!("t128 {}", probe(&t_m128()) == probe(&t_b128()) && format!("{:?}", t_m128()) == format!("{:?}", t_b128())); }
    if which.is_empty() || which.contains(&"t129".to_string()) { println!("t129 {}", probe(&t_m129()) == probe(&t_b129()) && format!("{:?}", t_m129()) == format!("{:?}", t_b129())); }
    if which.is_empty() || which.contains(&"t130".to_string()) { println!("t130 {}", probe(&t_m130()) == probe(&t_b130()) && format!("{:?}", t_m130()) == format!("{:?}", t_b130())); }
    if which.is_empty() || which.contains(&"t131".to_string()) { println!("t131 {}", probe(&t_m131()) == probe(&t_b131()) && format!("{:?}", t_m131()) == format!("{:?}", t_b131())); }
    if which.is_empty() || which.contains(&"t132".to_string()) { println!("t132 {}", probe(&t_m132()) == probe(&t_b132()) && format!("{:?}", t_m132()) == format!("{:?}", t_b132())); }
    if which.is_empty() || which.contains(&"t133".to_string()) { println!("t133 {}", probe(&t_m133()) == probe(&t_b133()) && format!("{:?}", t_m133()) == format!("{:?}", t_b133())); }
    if which.is_empty() || which.contains(&"t134".to_string()) { println!("t134 {}", probe(&t_m134()) == probe(&t_b134()) && format!("{:?}", t_m134()) == format!("{:?}", t_b134())); }
    if which.is_empty() || which.contains(&"t135".to_string()) { println!("t135 {}", probe(&t_m135()) == probe(&t_b135()) && format!("{:?}", t_m135()) == format!("{:?}", t_b135())); }
    if which.is_empty() || which.contains(&"t136".to_string()) { println!("t136 {}", probe(&t_m136()) == probe(&t_b136()) && format!("{:?}", t_m136()) == format!("{:?}", t_b136())); }
    if which.is_empty() || which.contains(&"t137".to_string()) { println!("t137 {}", probe(&t_m137()) == probe(&t_b137()) && format!("{:?}", t_m137()) == format!("{:?}", t_b137())); }
    if which.is_empty() || which.contains(&"t138".to_string()) { println!("t138 {}", probe(&t_m138()) == probe(&t_b138()) && format!("{:?}", t_m138()) == format!("{:?}", t_b138())); }
    if which.is_empty() || which.contains(&"t139".to_string()) { println!("t139 {}", probe(&t_m139()) == probe(&t_b139()) && format!("{:?}", t_m139()) == format!("{:?}", t_b139())); }
    if which.is_empty() || which.contains(&"t140".to_string()) { println!("t140 {}", probe(&t_m140()) == probe(&t_b140()) && format!("{:?}", t_m140()) == format!("{:?}", t_b140())); }
    if which.is_empty() || which.contains(&"t141".to_string()) { println!("t141 {}", probe(&t_m141()) == probe(&t_b141()) && format!("{:?}", t_m141()) == format!("{:?}", t_b141())); }
    if which.is_empty() || which.contains(&"t142".to_string()) { println!("t142 {}", probe(&t_m142()) == probe(&t_b142()) && format!("{:?}", t_m142()) == format!("{:?}", t_b142())); }
    if which.is_empty() || which.contains(&"t143".to_string()) { println!("t143 {}", probe(&t_m143()) == probe(&t_b143()) && format!("{:?}", t_m143()) == format!("{:?}", t_b143())); }
    if which.is_empty() || which.contains(&"t144".to_string()) { println!("t144 {}", probe(&t_m144()) == probe(&t_b144()) && format!("{:?}", t_m144()) == format!("{:?}", t_b144())); }
    if which.is_empty() || which.contains(&"t145".to_string()) { println!("t145 {}", probe(&t_m145()) == probe(&t_b145()) && format!("{:?}", t_m145()) == format!("{:?}", t_b145())); }
    if which.is_empty() || which.contains(&"t146".to_string()) { println!("t146 {}", probe(&t_m146()) == probe(&t_b146()) && format!("{:?}", t_m146()) == format!("{:?}", t_b146())); }
    if which.is_empty() || which.contains(&"t147".to_string()) { println!("t147 {}", probe(&t_m147()) == probe(&t_b147()) && format!("{:?}", t_m147()) == format!("{:?}", t_b147())); }
    if which.is_empty() || which.contains(&"t148".to_string()) { println!("t148 {}", probe(&t_m148()) == probe(&t_b148()) && format!("{:?}", t_m148()) == format!("{:?}", t_b148())); }
    if which.is_empty() || which.contains(&"t149".to_string()) { println!("t149 {}", probe(&t_m149()) == probe(&t_b149()) && format!("{:?}", t_m149()) == format!("{:?}", t_b149())); }
    if which.is_empty() || which.contains(&"t150".to_string()) { println!("t150 {}", probe(&t_m150()) == probe(&t_b150()) && format!("{:?}", t_m150()) == format!("{:?}", t_b150())); }
    if which.is_empty() || which.contains(&"t151".to_string()) { println!("t151 {}", probe(&t_m151()) == probe(&t_b151()) && format!("{:?}", t_m151()) == format!("{:?}", t_b151())); }
    if which.is_empty() || which.contains(&"t152".to_string()) { println!("t152 {}", probe(&t_m152()) == probe(&t_b152()) && format!("{:?}", t_m152()) == format!("{:?}", t_b152())); }
    if which.is_empty() || which.contains(&"t153".to_string()) { println!("t153 {}", probe(&t_m153()) == probe(&t_b153()) && format!("{:?}", t_m153()) == format!("{:?}", t_b153())); }
    if which.is_empty() || which.contains(&"t154".to_string()) { println!("t154 {}", probe(&t_m154()) == probe(&t_b154()) && format!("{:?}", t_m154()) == format!("{:?}", t_b154())); }
    if which.is_empty() || which.contains(&"t155".to_string()) { println!("t155 {}", probe(&t_m155()) == probe(&t_b155()) && format!("{:?}", t_m155()) == format!("{:?}", t_b155())); }
    if which.is_empty() || which.contains(&"t156".to_string()) { println!("t156 {}", probe(&t_m156()) == probe(&t_b156()) && format!("{:?}", t_m156()) == format!("{:?}", t_b156())); }
    if which.is_empty() || which.contains(&"t157".to_string()) { println!("t157 {}", probe(&t_m157()) == probe(&t_b157()) && format!("{:?}", t_m157()) == format!("{:?}", t_b157())); }
    if which.is_empty() || which.contains(&"t158".to_string()) { println!("t158 {}", probe(&t_m158()) == probe(&t_b158()) && format!("{:?}", t_m158()) == format!("{:?}", t_b158())); }
    if which.is_empty() || which.contains(&"t159".to_string()) { println!("t159 {}", probe(&t_m159()) == probe(&t_b159()) && format!("{:?}", t_m159()) == format!("{:?}", t_b159())); }
    if which.is_empty() || which.contains(&"t160".to_string()) { println!("t160 {}", probe(&t_m160()) == probe(&t_b160()) && format!("{:?}", t_m160()) == format!("{:?}", t_b160())); }
    if which.is_empty() || which.contains(&"t161".to_string()) { println!("t161 {}", probe(&t_m161()) == probe(&t_b161()) && format!("{:?}", t_m161()) == format!("{:?}", t_b161())); }
    if which.is_empty() || which.contains(&"t162".to_string()) { println!("t162 {}", probe(&t_m162()) == probe(&t_b162()) && format!("{:?}", t_m162()) == format!("{:?}", t_b162())); }
    if which.is_empty() || which.contains(&"t163".to_string()) { println!("t163 {}", probe(&t_m163()) == probe(&t_b163()) && format!("{:?}", t_m163()) == format!("{:?}", t_b163())); }
    if which.is_empty() || which.contains(&"t164".to_string()) { println!("t164 {}", probe(&t_m164()) == probe(&t_b164()) && format!("{:?}", t_m164()) == format!("{:?}", t_b164())); }
    if which.is_empty() || which.contains(&"t165".to_string()) { println!("t165 {}", probe(&t_m165()) == probe(&t_b165()) && format!("{:?}", t_m165()) == format!("{:?}", t_b165())); }
    if which.is_empty() || which.contains(&"t166".to_string()) { println!("t166 {}", probe(&t_m166()) == probe(&t_b166()) && format!("{:?}", t_m166()) == format!("{:?}", t_b166())); }
    if which.is_empty() || which.contains(&"t167".to_string()) { println!("t167 {}", probe(&t_m167()) == probe(&t_b167()) && format!("{:?}", t_m167()) == format!("{:?}", t_b167())); }
    if which.is_empty() || which.contains(&"t168".to_string()) { println!("t168 {}", probe(&t_m168()) == probe(&t_b168()) && format!("{:?}", t_m168()) == format!("{:?}", t_b168())); }
    if which.is_empty() || which.contains(&"t169".to_string()) { println!("t169 {}", probe(&t_m169()) == probe(&t_b169()) && format!("{:?}", t_m169()) == format!("{:?}", t_b169())); }
    if which.is_empty() || which.contains(&"t170".to_string()) { println!("t170 {}", probe(&t_m170()) == probe(&t_b170()) && format!("{:?}", t_m170()) == format!("{:?}", t_b170())); }
    if which.is_empty() || which.contains(&"t171".to_string()) { println!("t171 {}", probe(&t_m171()) == probe(&t_b171()) && format!("{:?}", t_m171()) == format!("{:?}", t_b171())); }
    if which.is_empty() || which.contains(&"t172".to_string()) { println!("t172 {}", probe(&t_m172()) == probe(&t_b172()) && format!("{:?}", t_m172()) == format!("{:?}", t_b172())); }
    if which.is_empty() || which.contains(&"t173".to_string()) { println!("t173 {}", probe(&t_m173()) == probe(&t_b173()) && format!("{:?}", t_m173()) == format!("{:?}", t_b173())); }
    if which.is_empty() || which.contains(&"t174".to_string()) { println!("t174 {}", probe(&t_m174()) == probe(&t_b174()) && format!("{:?}", t_m174()) == format!("{:?}", t_b174())); }
    if which.is_empty() || which.contains(&"t175".to_string()) { println!("t175 {}", probe(&t_m175()) == probe(&t_b175()) && format!("{:?}", t_m175()) == format!("{:?}", t_b175())); }
    if which.is_empty() || which.contains(&"t176".to_string()) { println!("t176 {}", probe(&t_m176()) == probe(&t_b176()) && format!("{:?}", t_m176()) == format!("{:?}", t_b176())); }
    if which.is_empty() || which.contains(&"t177".to_string()) { println!("t177 {}", probe(&t_m177()) == probe(&t_b177()) && format!("{:?}", t_m177()) == format!("{:?}", t_b177())); }
    if which.is_empty() || which.contains(&"t178".to_string()) { println!("t178 {}", probe(&t_m178()) == probe(&t_b178()) && format!("{:?}", t_m178()) == format!("{:?}", t_b178())); }
    if which.is_empty() || which.contains(&"t179".to_string()) { println!("t179 {}", probe(&t_m179()) == probe(&t_b179()) && format!("{:?}", t_m179()) == format!("{:?}", t_b179())); }
    if which.is_empty() || which.contains(&"t180".to_string()) { println!("t180 {}", probe(&t_m180()) == probe(&t_b180()) && format!("{:?}", t_m180()) == format!("{:?}", t_b180())); }
    if which.is_empty() || which.contains(&"t181".to_string()) { println!("t181 {}", probe(&t_m181()) == probe(&t_b181()) && format!("{:?}", t_m181()) == format!("{:?}", t_b181())); }
    if which.is_empty() || which.contains(&"t182".to_string()) { println!("t182 {}", probe(&t_m182()) == probe(&t_b182()) && format!("{:?}", t_m182()) == format!("{:?}", t_b182())); }
    if which.is_empty() || which.contains(&"t183".to_string()) { println!("t183 {}", probe(&t_m183()) == probe(&t_b183()) && format!("{:?}", t_m183()) == format!("{:?}", t_b183())); }
    if which.is_empty() || which.contains(&"t184".to_string()) { println!("t184 {}", probe(&t_m184()) == probe(&t_b184()) && format!("{:?}", t_m184()) == format!("{:?}", t_b184())); }
    if which.is_empty() || which.contains(&"t185".to_string()) { println!("t185 {}", probe(&t_m185()) == probe(&t_b185()) && format!("{:?}", t_m185()) == format!("{:?}", t_b185())); }
    if which.is_empty() || which.contains(&"t186".to_string()) { println!("t186 {}", probe(&t_m186()) == probe(&t_b186()) && format!("{:?}", t_m186()) == format!("{:?}", t_b186())); }
    if which.is_empty() || which.contains(&"t187".to_string()) { println!("t187 {}", probe(&t_m187()) == probe(&t_b187()) && format!("{:?}", t_m187()) == format!("{:?}", t_b187())); }
    if which.is_empty() || which.contains(&"t188".to_string()) { println!("t188 {}", probe(&t_m188()) == probe(&t_b188()) && format!("{:?}", t_m188()) == format!("{:?}", t_b188())); }
    if which.is_empty() || which.contains(&"t189".to_string()) { println!("t189 {}", probe(&t_m189()) == probe(&t_b189()) && format!("{:?}", t_m189()) == format!("{:?}", t_b189())); }
    if which.is_empty() || which.contains(&"t190".to_string()) { println!("t190 {}", probe(&t_m190()) == probe(&t_b190()) && format!("{:?}", t_m190()) == format!("{:?}", t_b190())); }
    if which.is_empty() || which.contains(&"t191".to_string()) { println!("t191 {}", probe(&t_m191()) == probe(&t_b191()) && format!("{:?}", t_m191()) == format!("{:?}", t_b191())); }
    if which.is_empty() || which.contains(&"t192".to_string()) { println!("t192 {}", probe(&t_m192()) == probe(&t_b192()) && format!("{:?}", t_m192()) == format!("{:?}", t_b192())); }
    if which.is_empty() || which.contains(&"t193".to_string()) { println!("t193 {}", probe(&t_m193()) == probe(&t_b193()) && format!("{:?}", t_m193()) == format!("{:?}", t_b193())); }
    if which.is_empty() || which.contains(&"t194".to_string()) { println!("t194 {}", probe(&t_m194()) == probe(&t_b194()) && format!("{:?}", t_m194()) == format!("{:?}", t_b194())); }
    if which.is_empty() || which.contains(&"t195".to_string()) { println!("t195 {}", probe(&t_m195()) == probe(&t_b195()) && format!("{:?}", t_m195()) == format!("{:?}", t_b195())); }
    if which.is_empty() || which.contains(&"t196".to_string()) { println!("t196 {}", probe(&t_m196()) == probe(&t_b196()) && format!("{:?}", t_m196()) == format!("{:?}", t_b196())); }
    if which.is_empty() || which.contains(&"t197".to_string()) { println!("t197 {}", probe(&t_m197()) == probe(&t_b197()) && format!("{:?}", t_m197()) == format!("{:?}", t_b197())); }
    if which.is_empty() || which.contains(&"t198".to_string()) { println!("t198 {}", probe(&t_m198()) == probe(&t_b198()) && format!("{:?}", t_m198()) == format!("{:?}", t_b198())); }
    if which.is_empty() || which.contains(&"t199".to_string()) { println!("t199 {}", probe(&t_m199()) == probe(&t_b199()) && format!("{:?}", t_m199()) == format!("{:?}", t_b199())); }
    if which.is_empty() || which.contains(&"t200".to_string()) { println!("t200 {}", probe(&t_m200()) == probe(&t_b200()) && format!("{:?}", t_m200()) == format!("{:?}", t_b200())); }
    if which.is_empty() || which.contains(&"t201".to_string()) { println!("t201 {}", probe(&t_m201()) == probe(&t_b201()) && format!("{:?}", t_m201()) == format!("{:?}", t_b201())); }
    if which.is_empty() || which.contains(&"t202".to_string()) { println!("t202 {}", probe(&t_m202()) == probe(&t_b202()) && format!("{:?}", t_m202()) == format!("{:?}", t_b202())); }
    if which.is_empty() || which.contains(&"t203".to_string()) { println!("t203 {}", probe(&t_m203()) == probe(&t_b203()) && format!("{:?}", t_m203()) == format!("{:?}", t_b203())); }
    if which.is_empty() || which.contains(&"t204".to_string()) { println!("t204 {}", probe(&t_m204()) == probe(&t_b204()) && format!("{:?}", t_m204()) == format!("{:?}", t_b204())); }
    if which.is_empty() || which.contains(&"t205".to_string()) { println!("t205 {}", probe(&t_m205()) == probe(&t_b205()) && format!("{:?}", t_m205()) == format!("{:?}", t_b205())); }
    if which.is_empty() || which.contains(&"t206".to_string()) { println!("t206 {}", probe(&t_m206()) == probe(&t_b206()) && format!("{:?}", t_m206()) == format!("{:?}", t_b206())); }
    if which.is_empty() || which.contains(&"t207".to_string()) { println!("t207 {}", probe(&t_m207()) == probe(&t_b207()) && format!("{:?}", t_m207()) == format!("{:?}", t_b207())); }
    if which.is_empty() || which.contains(&"t208".to_string()) { println!("t208 {}", probe(&t_m208()) == probe(&t_b208()) && format!("{:?}", t_m208()) == format!("{:?}", t_b208())); }
    if which.is_empty() || which.contains(&"t209".to_string()) { println!("t209 {}", probe(&t_m209()) == probe(&t_b209()) && format!("{:?}", t_m209()) == format!("{:?}", t_b209())); }
    if which.is_empty() || which.contains(&"t210".to_string()) { println!("t210 {}", probe(&t_m210()) == probe(&t_b210()) && format!("{:?}", t_m210()) == format!("{:?}", t_b210())); }
    if which.is_empty() || which.contains(&"t211".to_string()) { println!("t211 {}", probe(&t_m211()) == probe(&t_b211()) && format!("{:?}", t_m211()) == format!("{:?}", t_b211())); }
    if which.is_empty() || which.contains(&"t212".to_string()) { println!("t212 {}", probe(&t_m212()) == probe(&t_b212()) && format!("{:?}", t_m212()) == format!("{:?}", t_b212())); }
    if which.is_empty() || which.contains(&"t213".to_string()) { println!("t213 {}", probe(&t_m213()) == probe(&t_b213()) && format!("{:?}", t_m213()) == format!("{:?}", t_b213())); }
    if which.is_empty() || which.contains(&"t214".to_string()) { println!("t214 {}", probe(&t_m214()) == probe(&t_b214()) && format!("{:?}", t_m214()) == format!("{:?}", t_b214())); }
    if which.is_empty() || which.contains(&"g0".to_string()) { println!("g0 {}", probe(&g_m0()) == probe(&g_b0())); }
    if which.is_empty() || which.contains(&"g1".to_string()) { println!("g1 {}", probe(&g_m1()) == probe(&g_b1())); }
    if which.is_empty() || which.contains(&"g2".to_string()) { println!("g2 {}", probe(&g_m2()) == probe(&g_b2())); }
    if which.is_empty() || which.contains(&"g3".to_string()) { println!("g3 {}", probe(&g_m3()) == probe(&g_b3())); }
    if which.is_empty() || which.contains(&"g4".to_string()) { println!("g4 {}", probe(&g_m4()) == probe(&g_b4())); }
    if which.is_empty() || which.contains(&"g5".to_string()) { println!("g5 {}", probe(&g_m5()) == probe(&g_b5())); }
    if which.is_empty() || which.contains(&"g6".to_string()) { println!("g6 {}", probe(&g_m6()) == probe(&g_b6())); }
    if which.is_empty() || which.contains(&"g7".to_string()) { println!("g7 {}", probe(&g_m7()) == probe(&g_b7())); }
    if which.is_empty() || which.contains(&"a0".to_string()) { println!("a0 {}", drive(&mut a_m0()) == drive(&mut a_b0())); }
    if which.is_empty() || which.contains(&"a1".to_string()) { println!("a1 {}", drive(&mut a_m1()) == drive(&mut a_b1())); }
    if which.is_empty() || which.contains(&"a2".to_string()) { println!("a2 {}", drive(&mut a_m2()) == drive(&mut a_b2())); }
    if which.is_empty() || which.contains(&"a3".to_string()) { println!("a3 {}", drive(&mut a_m3()) == drive(&mut a_b3())); }
    if which.is_empty() || which.contains(&"a4".to_string()) { println!("a4 {}", drive(&mut a_m4()) == drive(&mut a_b4())); }
    if which.is_empty() || which.contains(&"a5".to_string()) { println!("a5 {}", drive(&mut a_m5()) == drive(&mut a_b5())); }
    if which.is_empty() || which.contains(&"a6".to_string()) { println!("a6 {}", drive(&mut a_m6()) == drive(&mut a_b6())); }
    if which.is_empty() || which.contains(&"a7".to_string()) { println!("a7 {}", drive(&mut a_m7()) == drive(&mut a_b7())); }
    if which.is_empty() || which.contains(&"a8".to_string()) { println!("a8 {}", drive(&mut a_m8()) == drive(&mut a_b8())); }
    if which.is_empty() || which.contains(&"a9".to_string()) { println!("a9 {}", drive(&mut a_m9()) == drive(&mut a_b9())); }
    if which.is_empty() || which.contains(&"a10".to_string()) { println!("a10 {}", drive(&mut a_m10()) == drive(&mut a_b10())); }
    if which.is_empty() || which.contains(&"a11".to_string()) { println!("a11 {}", drive(&mut a_m11()) == drive(&mut a_b11())); }
    if which.is_empty() || which.contains(&"a12".to_string()) { println!("a12 {}", drive(&mut a_m12()) == drive(&mut a_b12())); }
    if which.is_empty() || which.contains(&"a13".to_string()) { println!("a13 {}", drive(&mut a_m13()) == drive(&mut a_b13())); }
    if which.is_empty() || which.contains(&"a14".to_string()) { println!("a14 {}", drive(&mut a_m14()) == drive(&mut a_b14())); }
    if which.is_empty() || which.contains(&"a15".to_string()) { println!("a15 {}", drive(&mut a_m15()) == drive(&mut a_b15())); }
    if which.is_empty() || which.contains(&"a16".to_string()) { println!("a16 {}", drive(&mut a_m16()) == drive(&mut a_b16())); }
    if which.is_empty() || which.contains(&"a17".to_string()) { println!("a17 {}", drive(&mut a_m17()) == drive(&mut a_b17())); }
    if which.is_empty() || which.contains(&"a18".to_string()) { println!("a18 {}", drive(&mut a_m18()) == drive(&mut a_b18())); }
    if which.is_empty() || which.contains(&"a19".to_string()) { println!("a19 {}", drive(&mut a_m19()) == drive(&mut a_b19())); }
    if which.is_empty() || which.contains(&"a20".to_string()) { println!("a20 {}", drive(&mut a_m20()) == drive(&mut a_b20())); }
    if which.is_empty() || which.contains(&"a21".to_string()) { println!("a21 {}", drive(&mut a_m21()) == drive(&mut a_b21())); }
    if which.is_empty() || which.contains(&"a22".to_string()) { println!("a22 {}", drive(&mut a_m22()) == drive(&mut a_b22())); }
    if which.is_empty() || which.contains(&"a23".to_string()) { println!("a23 {}", drive(&mut a_m23()) == drive(&mut a_b23())); }
    if which.is_empty() || which.contains(&"a24".to_string()) { println!("a24 {}", drive(&mut a_m24()) == drive(&mut a_b24())); }
    if which.is_empty() || which.contains(&"a25".to_string()) { println!("a25 {}", drive(&mut a_m25()) == drive(&mut a_b25())); }
    if which.is_empty() || which.contains(&"a26".to_string()) { println!("a26 {}", drive(&mut a_m26()) == drive(&mut a_b26())); }
    if which.is_empty() || which.contains(&"a27".to_string()) { println!("a27 {}", drive(&mut a_m27()) == drive(&mut a_b27())); }
    if which.is_empty() || which.contains(&"a28".to_string()) { println!("a28 {}", drive(&mut a_m28()) == drive(&mut a_b28())); }
    if which.is_empty() || which.contains(&"a29".to_string()) { println!("a29 {}", drive(&mut a_m29()) == drive(&mut a_b29())); }
}