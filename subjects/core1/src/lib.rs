//! Subject types for the structural checks: the real #[derive(Animate)] expansion of these structs is what
//! the executor runs (nothing here is a model of mina; it only *uses* mina's public API).
#![allow(dead_code)]
use mina::prelude::*;

/// two animated properties of different numeric types
#[derive(Animate, Clone, Debug, Default, PartialEq)]
pub struct S2 {
    pub x: f32,
    pub y: u8,
}

/// one animated property
#[derive(Animate, Clone, Debug, Default, PartialEq)]
pub struct S1 {
    pub v: f32,
}

/// three fields, only two of them animated (#[animate] filter)
#[derive(Animate, Clone, Debug, Default, PartialEq)]
pub struct S3 {
    #[animate]
    pub a: f32,
    pub untouched: f32,
    #[animate]
    pub b: i16,
}

#[derive(Clone, Debug, Default, Eq, PartialEq, enum_map::Enum)]
pub enum St {
    #[default]
    A,
    B,
    C,
    D,
}
