#!/usr/bin/env python3
"""Regenerates MANIFEST.json from the table below (single source of truth for what is claimed)."""
import json, os
V = os.path.dirname(os.path.abspath(__file__))
REPLAY = './check replay {path}'
TB = ('trusted base: nightly MIR dump of the current tree; mirsym executor (engine/mirsym) and its std models listed in the '
      'evidence (trusted_base); cvc5 1.0 / z3 4.8.12; valid-configuration preconditions listed under assumptions')
CHECKS = {
 'C01': dict(level='proof', design='§4 C01',
             text='Bounded proof: the real builder API, derive(Animate) expansion, TimelineBuilderArguments::from (sort), prepare_frame (binary search) and SubTimeline::{from_keyframes,value_at,get_bounding_frames,get_frame,override_start_value}, interpolate_value are executed symbolically for every keyframe shape up to the bound (which keyframes define which property / carry an easing, with/without start override: enumerated; positions, values, time-scale output: symbolic); one SMT obligation per execution path compares the result with a reference written from the property text (lerp/easing uninterpreted, so the term names the keyframes and the easing used).',
             technique='symbolic execution of rustc MIR (path enumeration) + SMT (z3, QF_UF+FP)'),
 'C04': dict(level='model_checking', design='§4 C04',
             text='Bounded model checking over the real MIR of MappedTimelineAnimator::{new,blend_next_timeline,update_current_values,advance,set_state,is_ended}, MapLike for EnumMap and MergedTimeline::{start_with,update,duration}: every configuration of 3 (thorough 4) states with none/single/merged timelines and every operation sequence up to depth 4 (thorough 5) with SYMBOLIC advance amounts is executed symbolically; at every set_state the solver decides whether current_values can differ before/after (and, for the current state, whether anything in the animator changes). Component timelines are abstract functions obeying the timeline contract proved in C02/C09/C10. Counterexample histories are replayed on the real StateAnimator.',
             technique='symbolic execution of rustc MIR over bounded operation histories + SMT (z3, EUF+BV+FP)'),
 'C05': dict(level='model_checking', design='§4 C05',
             text='Same encoding as C04; after EVERY operation of every depth-4 (thorough 5) history the solver decides whether current_values, current_state, is_ended or the private time-in-state can differ from a reference animator written from the documented blend/pause/resume rules (the private state is read from the symbolic state: no hook). Counterexamples are replayed natively against a Rust reference that re-evaluates pristine timelines.',
             technique='symbolic execution of rustc MIR in lock-step with a reference model + SMT (z3)'),
 'C06': dict(level='model_checking', design='§4 C06',
             text='Same symbolic animator encoding as C04: after every prefix of <=2 (thorough 3) operations in every configuration, the schedules advance(a);advance(b)[;advance(c)], advance(0) and advance(a);advance(0);advance(b) (a,b,c symbolic) are executed on the real MIR; the solver decides whether the final values or the accumulated time can differ from ONE evaluation at the accumulated Duration (nothing but the Duration carries over), and whether advance(0) changes anything. The Duration facts used (from_secs_f32(0)=ZERO; exact additivity on the 2^-9 s grid) are solver obligations on a bit-precise model of std try_from_secs!, itself diff-tested against std on every run.',
             technique='symbolic execution of rustc MIR + SMT (z3 EUF/BV; cvc5/z3 QF_FPBV for the Duration lemmas)'),
 'C07': dict(level='model_checking', design='§4 C07',
             text='Animator level: real MIR of is_ended / MergedTimeline::duration (max_by closure) / advance over abstract component durations (finite or +inf), every configuration x prefix: is_ended <=> no timeline or as_secs(time) >= max component duration; never true with an infinite component; stays true; values rest strictly past the end. Kernel level (real TimeScale MIR, all f32): what the position is when t >= duration() — the literal reading is a recorded known finding, the enforced bound is 2 ulp(duration()) in time.',
             technique='symbolic execution of rustc MIR + SMT (z3 EUF/FP; cvc5/z3 portfolio for the time-scale kernel)',
             note='as_secs_f32 monotone and finite is ASSUMED (L-dur), not proved; component timelines abstract (contract from C02); ' + TB),
 'C11': dict(level='proof', design='§4 C11',
             text='Bounded proof: for every non-identity insertion order of N<=3 (thorough 4) keyframes at symbolic distinct positions the timeline built by the real builder is compared with the one built in increasing order: structurally identical built values (boundary_times, time scale, every sub-timeline) discharge the obligation; otherwise both are evaluated symbolically at a symbolic time and the solver decides equality of update and metadata.',
             technique='symbolic execution of rustc MIR + structural equality / SMT (z3)'),
 'C13': dict(level='proof', design='§4 C13',
             text='The real MIR of <Easing as EasingFunction>::calc (30-arm dispatch), every lazy_static initialiser, CubicBezierEasing::{new,calc}, LinearEasing::calc and lyon_geom CubicBezierSegment::y is executed with symbolic x. Endpoint laws, Linear identity and Custom delegation are bit-precise f32 obligations; range, monotonicity, In/Out and InOut mirror identities and agreement with the published control points are exact real-arithmetic (NRA) obligations over the polynomial extracted from the executed code, for all real x in [0,1]. The literal definition clause (timing function at horizontal position x) is decided too and is a recorded known finding.',
             technique='symbolic execution of rustc MIR + SMT (QF_FP for endpoints, QF_NRA for curve shape)'),
 'C14': dict(level='proof', design='§4 C14',
             text='The real MIR of all eleven primitive Lerp impls (f32, f64, nine integer types incl. the as-f32 casts, f32::round and num-traits from_f32 models, expect) is executed with symbolic a, b, x; endpoint laws for every value exactly representable in f32 (all 2^64 pairs for the wide types), range/no-panic and identity over all a, b of the 8-bit types (16-bit and wider: identity; range in thorough) with x on the stated grid (quick) or all x in [0,1] (thorough); one-ulp bound for f32 identity. Counterexamples are replayed natively in dev and release.',
             technique='symbolic execution of rustc MIR + SMT (cvc5/z3 portfolio, QF_FPBV)'),
 'C02': dict(level='proof', design='§4 C02',
             text='Structural part: the real builder / derive(Animate) / SubTimeline / interpolate_value MIR is executed on every keyframe shape up to the bound (positions, values, time-scale output symbolic); per execution path the solver decides that at a position exactly on a defining keyframe, before the start, at 100% and after the end the produced value IS the keyframe / 0% / 100% / terminal value (lerp and easing uninterpreted, constrained only by instances of the endpoint lemmas proved in C13/C14). Kernel part: hold-at-1.0 rule, end of reversing cycles and constant Ended position on the real TimeScale MIR for all f32 inputs.',
             technique='symbolic execution of rustc MIR (path enumeration) + SMT (z3 EUF+FP; cvc5/z3 portfolio for the time-scale kernel)'),
 'C08': dict(level='proof', design='§4 C08',
             text='Real derive(Animate) update (S1/S2/S3 incl. the #[animate] filter), prepare_frame, SubTimeline::value_at and MergedTimeline::update executed symbolically from a fully symbolic prior target in every phase (not started / active / repeating / reversing / ended): the solver decides per path that every property without a keyframe, every excluded field and, with no keyframes, the whole target still hold their prior contents.',
             technique='symbolic execution of rustc MIR + SMT (z3)'),
 'C09': dict(level='proof', design='§4 C09',
             text='Per shape and path: update leaves the timeline value structurally identical; result terms of animated fields are identical for two different symbolic prior targets; a second evaluation is idempotent; the derive(Clone) clone is the same value; start_with(v1);start_with(v2) yields the same value as start_with(v2); metadata accessors are unchanged by start_with.',
             technique='symbolic execution of rustc MIR + structural identity / SMT (z3)'),
 'C10': dict(level='proof', design='§4 C10',
             text='Twin harness on the real code: a timeline and its clone after start_with(v) are evaluated at the same symbolic position; the solver decides per path: not started / 0% on the first pass => exactly v; repeating, reversing or ended => identical; first pass at or beyond the next keyframe => identical. The loop-state flags are tied to time on the real TimeScale MIR (is_repeating <=> later cycle, is_reversing <=> second half) for all f32 inputs (quick: 12-bit mantissas).',
             technique='symbolic execution of rustc MIR (twin runs) + SMT (z3 EUF+FP; cvc5/z3 portfolio for the flags)'),
 'C12': dict(level='proof', design='§4 C12',
             text='Real MergedTimeline::{of,from,clone,update,start_with,delay,duration,repeat,cycle_duration} MIR (with its reduce/min_by/max_by/max closures and Repeat ordering) over 0..3 (thorough 4) components with independent symbolic timing and every overlapping/disjoint property mask; components are abstract timelines obeying L-tl, plus real derive timelines for the single-timeline wrapper. Solver decides: overlay order, start_with propagation, delay=min, duration=max (inf), repeat=max, cycle_duration iff all agree, empty list.',
             technique='symbolic execution of rustc MIR + SMT (z3 EUF+FP+BV)'),
 'C15': dict(level='translation_validation', design='§4 C15',
             text='A generated family of timeline! sentences (every argument kind present/absent, literal forms int/float/underscored, s/ms, for/after, Nx/infinite, reverse, easing paths, from/to/N%/N.5%, every integer percentage, argument orders, bracketed merged lists) is compiled with the REAL macro; each is paired with builder-API code generated independently from the documented reading. The executor runs both MIR bodies and compares the built timeline values structurally (identical value => identical update at all times and identical metadata). The macro\'s numeric kernels (percent and millisecond scaling) are read from the MIR of mina_macros and decided by the solver for ALL literal values (every N in 0..=100, every integer ms below 2^24).',
             technique='translation validation: symbolic execution of both MIR bodies + structural identity; SMT (cvc5/z3, QF_FPBV) for the scaling kernels',
             note='"all sentences of the grammar" is covered by a generated finite family (stated bound); compile-time rejection of ill-formed sentences is NOT claimed (needs the compiler as oracle); ' + TB),
 'C16': dict(level='translation_validation', design='§4 C16',
             text='A generated family of animator! blocks (with/without default clause, inline/expression/omitted default values, A | B arms, bracketed merged arms, `default` keyframe bodies, repeated arms, no arms) compiled with the REAL macro, each paired with independently generated StateAnimatorBuilder code; the executor builds both animators (real expansion MIR, real EnumMap-backed builder) and compares the complete initial private state structurally; differing pairs are driven natively through a 12-operation history.',
             technique='translation validation: symbolic execution of both MIR bodies + structural identity',
             note='no hook needed (the expansion is ordinary MIR of the generated crate); finite family; compile-time rejection not claimed; ' + TB),
 'C17': dict(level='translation_validation', design='§4 C17',
             text='A generated family of struct shapes (1..6 fields of f32/f64/u8/i16/i32/u32, every #[animate] subset up to 3 (thorough 4) fields, listed patterns for 5-6, visibilities, remote proxies) is compiled with the REAL derive; per shape: the setter set is read off the MIR item list; keyframe_from == keyframe + animated setters (structural); accessors return the configured delay / cycle / repeat and TimeScale::get_duration; update equals the C01 reference on the (remote) target and leaves other fields alone (solver, per path).',
             technique='translation validation: MIR item inspection + symbolic execution + SMT (z3)'),
 'C18': dict(level='model_checking', design='§4 C18',
             text='Inductive one-frame step of the REAL animate::<T> system MIR from an arbitrary Animator pre-state (enabled, position, state symbolic; timeline / target present or not) with a symbolic frame delta over a call-level model of the ECS entry points; per execution path the solver decides every clause of the property (time conservation, forward-only states, Waiting only before the delay, Ended neither early nor more than one frame late, never Ended when infinite, terminal values when Ended, one event per state change carrying the end-of-frame state, disabled changes nothing). Counterexamples are replayed on a real bevy App with a hand-driven clock.',
             technique='symbolic execution of rustc MIR over an ECS contract model + SMT (z3); inductive step',
             note='trusted: the ECS call-level model (checks/bevy_model.py), the abstract timeline contract, as_secs_f32 uninterpreted; ' + TB),
 'C19': dict(level='model_checking', design='§4 C19',
             text='System-level steps of the REAL select_animation, chain_animations and animate MIR over the ECS call-level model: select_animation from every (key, previous key, changed?) pre-state with an arbitrary Animator; chain_animations for every chain-map variant with 0..2 symbolic events (this/other entity, any state); two-frame integrated runs in both relative orders of chain and select. Per path the solver decides: the key\'s timeline is cloned, started from the current component values, the animator reset and the component unchanged in that frame; keys without a timeline stop animation and leave the component alone; re-assigning the current key restarts nothing; the chain fires exactly for Ended events of this entity whose key has an entry. The clause about other animators on the same entity is a recorded known finding (replayed on a real bevy App).',
             technique='symbolic execution of rustc MIR over an ECS contract model + SMT (z3)',
             note='trusted: the ECS call-level model (checks/bevy_model.py) incl. Changed<> filter and EventReader semantics, abstract timelines (L-tl); ' + TB),
 'C20': dict(level='proof', design='§4 C20',
             text='No-panic / finiteness / dev==release obligations over the encodings of the other checks: TimeScale kernel (all f32, every Repeat incl. Times(u32::MAX), overflow-checked vs wrapping semantics compared), every execution path of build + start_with + update + accessors on the structural shapes (panicking paths must be infeasible), StateAnimator::advance with the exact Duration model for every finite dt >= 0, f32 lerp finiteness for |v| <= 2^120; the documented integer-lerp overshoot panic is a recorded known finding.',
             technique='symbolic execution of rustc MIR in both overflow semantics + SMT (cvc5/z3)'),
 'C03': dict(level='proof', design='§4 C03',
             text='Bounded proof: every clause of the property is an SMT obligation over the symbolic execution of the real MIR of TimeScale::{new,get_position,get_duration,get_delay,get_cycle_duration,get_repeat}; all finite f32 t/delay/duration (quick: low 12 mantissa bits zero), every repeat variant and u32 count, both build profiles; sat answers are replayed natively before being reported.',
             technique='symbolic execution of rustc MIR + SMT (cvc5/z3 portfolio), QF_FPBV'),
}
NOT_YET = {}
props = [json.loads(l) for l in open(os.path.join(V, 'properties.jsonl'))]
checks = []
for p in props:
    c = CHECKS.get(p['id'])
    if not c: continue
    checks.append({
        'property_id': p['id'],
        'quick_cmd': f"./check {p['id']} --tier quick",
        'thorough_cmd': f"./check {p['id']} --tier thorough",
        'evidence_file': f"/verif/evidence/{p['id']}.json",
        'replay_cmd_template': REPLAY,
        'engine': 'mirsym',
        'level_claimed': {'category': c['level'], 'text': c['text'], 'design_ref': c['design']},
        'level_note': c.get('note', TB),
        'technique': c['technique'],
    })
na = [{'property_id': p['id'], 'reason': NOT_YET.get(p['id'], 'check not finished yet in this session (solver-based encoding in progress; see DESIGN.md §4)')}
      for p in props if p['id'] not in CHECKS]
man = {
 'version': 1,
 'setup_cmd': './setup.sh',
 'hooks': {'guard': 'focustense_mina_verif (unused: the executor reads private state from the MIR, no source hooks exist)',
           'enable': 'none needed', 'baseline_off_cmd': 'cd /repo && cargo test --workspace --no-fail-fast --offline',
           'source_commits': [], 'add_only': True},
 'engines': [{'name': 'mirsym', 'path': 'engine/mirsym', 'serves_properties': sorted(CHECKS),
              'kind_free_text': 'symbolic executor for rustc textual MIR (nightly -Zunpretty=mir of the current tree) producing SMT-LIB2 obligations decided by a cvc5/z3 portfolio; native replay of counterexamples through /verif/replay'}],
 'checks': checks,
 'not_applicable': na,
 'notes': 'Solver-based checking of the real code. See DESIGN.md. Exit 3 = inconclusive (engine/model problem), never reported as a violation.',
}
json.dump(man, open(os.path.join(V, 'MANIFEST.json'), 'w'), indent=1)
print('checks:', [c['property_id'] for c in checks], 'n/a:', len(na))
