"""C14 — linear interpolation obeys the lerp laws for every numeric type (real MIR of the Lerp impls)."""
from common import *

INTS = ['i8', 'u8', 'i16', 'u16', 'i32', 'u32', 'i64', 'u64', 'usize']
ZERO = fpv32(0.0); ONE = fpv32(1.0)


def lerp_fn(prog, ty):
    from mirsym.parser import type_head
    fs = [f for f in prog.by_last['lerp'] if f.crate == 'mina_core' and f.args and type_head(f.args[0][1]) == ty]
    assert len(fs) == 1, (ty, fs)
    return fs[0]


class LerpSummary:
    def __init__(self, prog, enums, ty, check, suffix=''):
        self.ty = ty
        if ty == 'f32': srt = F32
        elif ty == 'f64': srt = F64
        else: srt = z3.BitVecSort(INT_BITS[ty])
        self.a = z3.Const(f'a_{ty}{suffix}', srt); self.b = z3.Const(f'b_{ty}{suffix}', srt); self.x = z3.FP(f'x_{ty}{suffix}', F32)
        m = Machine(prog, enums, feas_timeout_ms=200, feas_mode='fp')
        f = lerp_fn(prog, ty)

        def h(m):
            return m.call_fn(f, [m.alloc(Sc(ty, self.a)), m.alloc(Sc(ty, self.b)), Sc('f32', self.x)])
        rs = m.explore(h)
        ok = [r for r in rs if r.outcome == 'ok']; pan = [r for r in rs if r.outcome == 'panic']
        for r in rs:
            if r.outcome in ('unsupported', 'truncated'):
                check.inconclusive.append(f'lerp<{ty}>: {r.msg}')
        self.panic = z3.Or([z3.And(r.pc) if r.pc else z3.BoolVal(True) for r in pan]) if pan else z3.BoolVal(False)
        res = None
        for r in ok:
            c = z3.And(r.pc) if r.pc else z3.BoolVal(True)
            res = r.value.t if res is None else z3.If(c, r.value.t, res)
        self.res = res
        self.paths = len(rs)
        check.note_machine(m)

    def exact_in_f32(self, v):
        """the integer value v is exactly representable in f32"""
        ty = self.ty
        if ty in ('f32',): return z3.BoolVal(True)
        bits = INT_BITS[ty]
        if bits <= 16: return z3.BoolVal(True)
        av = z3.If(v < 0, -v, v) if is_signed(ty) else v
        low = av & (-av)                       # lowest set bit
        # at most 24 significant bits:  av < low * 2^24  <=>  (av >> 24) < low
        return z3.Or(av == 0, z3.ULT(z3.LShR(av, 24), low))


def bits_of(x, name):
    b = z3.BitVec(name, 32)
    return b, [z3.fpBVToFP(b, F32) == x]


def main(tier):
    check = Check('C14', tier, 'proof')
    prog, enums, keys = load_program(['mina_core'])
    check.info['mir_source_hash'] = keys
    to = 100 if tier == 'quick' else 1500
    quick = tier == 'quick'
    cases = {}
    for ty in ['f32', 'f64'] + INTS:
        S = LerpSummary(prog, enums, ty, check)
        cases[ty] = S
        a, b, x, r = S.a, S.b, S.x, S.res
        mv = [a, b, x]
        if ty in ('f32', 'f64'):
            fina = [fin(a), fin(b)]
            if ty == 'f64':
                # "values exactly representable in f32"
                fina += [z3.fpFPToFP(RNE, z3.fpFPToFP(RNE, a, F32), F64) == a, z3.fpFPToFP(RNE, z3.fpFPToFP(RNE, b, F32), F64) == b]
            eq = lambda u, v: z3.fpEQ(u, v)
            pre = fina
        else:
            pre = [S.exact_in_f32(a), S.exact_in_f32(b)]
            eq = lambda u, v: u == v
        def ob(name, extra, neg, words, timeout=None, key=None, solvers=('cvc5', 'z3')):
            o = check.add(Obligation(f'C14.{ty}.{name}', pre + list(extra) + [neg], mv, timeout=timeout or to, words=words, finding_key=key, solvers=solvers))
            o.S = S; return o
        ob('endpoint0', [x == ZERO], z3.Or(S.panic, z3.Not(eq(r, a))), f'lerp(a,b,0) == a and no panic, all {ty} a,b exactly representable in f32')
        ob('endpoint1', [x == ONE], z3.Or(S.panic, z3.Not(eq(r, b))), f'lerp(a,b,1) == b and no panic, all {ty} a,b exactly representable in f32')
        xin = [z3.fpGEQ(x, ZERO), z3.fpLEQ(x, ONE)]
        xset = [z3.Or(x == fpv32(0.25), x == fpv32(0.5), x == fpv32(0.75), x == fpv32(1 / 3))]
        XSET = 'x in {1/4, 1/2, 3/4, f32(1/3)}'
        xeasy = [z3.Or(x == fpv32(0.25), x == fpv32(0.5), x == fpv32(0.75))]
        XEASY = 'x in {1/4, 1/2, 3/4}'
        def xgrid(nb):
            bx, c = bits_of(x, 'xbits_' + ty); return c + [z3.Extract(nb - 1, 0, bx) == 0]
        if ty == 'f32':
            # identity: literal reading (fails by one ulp -> known finding R2) and the enforced one-ulp bound
            ob('identity-exact', xin + [b == a], z3.Not(eq(r, a)), 'lerp(a,a,x) == a for x in [0,1] (literal reading)', key='C14:f32:identity-one-ulp', timeout=60)
            rb, c1 = bits_of(r, 'rbits'); ab, c2 = bits_of(a, 'abits')
            near = z3.Or(rb == ab, rb == ab + 1, rb == ab - 1, z3.And(z3.fpIsZero(r), z3.fpIsZero(a)))
            if quick:
                ob('identity-1ulp', xeasy + [b == a] + c1 + c2, z3.Not(near), f'lerp(a,a,x) is a or one of its two f32 neighbours, all finite a, {XEASY}')
            else:
                ob('identity-1ulp', xin + [b == a] + c1 + c2, z3.Not(near), 'lerp(a,a,x) is a or one of its two f32 neighbours for all x in [0,1], all finite a')
                ob('finite', xin + [z3.fpLEQ(z3.fpAbs(a), fpv32(2.0 ** 120)), z3.fpLEQ(z3.fpAbs(b), fpv32(2.0 ** 120))], z3.Not(fin(r)), 'x in [0,1], |a|,|b| <= 2^120: result finite')
        elif ty == 'f64':
            if not quick:
                ob('finite', xin, z3.Not(fin(r)), 'f64 (f32-representable a,b), x in [0,1]: result finite')
        else:
            bits = INT_BITS[ty]; sg = is_signed(ty)
            le = (lambda u, v: u <= v) if sg else (lambda u, v: z3.ULE(u, v))
            lo = z3.If(le(a, b), a, b); hi = z3.If(le(a, b), b, a)
            inrange = z3.And(le(lo, r), le(r, hi))
            if bits == 8:
                g = xgrid(20) if quick else []
                gw = ' (quick: low 20 mantissa bits of x zero)' if quick else ''
                ob('range-nopanic', xin + g, z3.Or(S.panic, z3.Not(inrange)), f'x in [0,1]: no panic and min(a,b) <= lerp <= max(a,b), ALL {ty} a,b' + gw)
                ob('identity', xin + g + [b == a], z3.Or(S.panic, r != a), f'lerp(a,a,x) == a for x in [0,1], all {ty} a' + gw)
            elif bits == 16:
                if quick:
                    ob('identity', xset + [b == a], z3.Or(S.panic, r != a), f'lerp(a,a,x) == a, all {ty} a, {XSET}')
                else:
                    ob('range-nopanic', xin, z3.Or(S.panic, z3.Not(inrange)), f'x in [0,1]: no panic and min <= lerp <= max, ALL {ty} a,b')
                    ob('identity', xin + [b == a], z3.Or(S.panic, r != a), f'lerp(a,a,x) == a for x in [0,1], all {ty} a')
            else:
                lim = 1 << 22
                inr = (lambda v: z3.And(v <= lim, v >= -lim)) if sg else (lambda v: z3.ULE(v, z3.BitVecVal(lim, bits)))
                # literal reading for every f32-representable value: fails above 2^22 (float rounding) -> known finding
                ob('identity-exact-wide', xset + [b == a], z3.Or(S.panic, r != a), f'lerp(a,a,x) == a for every f32-representable {ty} a, {XSET} (literal reading)',
                   key='C14:wide-int:identity-above-2^22', timeout=60)
                if quick:
                    ob('identity', xeasy + [b == a, inr(a)], z3.Or(S.panic, r != a), f'lerp(a,a,x) == a, |a| <= 2^22, {XEASY}')
                else:
                    ob('identity', xin + [b == a, inr(a)], z3.Or(S.panic, r != a), f'lerp(a,a,x) == a for x in [0,1], |a| <= 2^22')
                    ob('range-nopanic', xin + [inr(a), inr(b)], z3.Or(S.panic, z3.Not(inrange)), f'x in [0,1], |a|,|b| <= 2^22: no panic and min <= lerp <= max')
    check.assumptions += ['a, b exactly representable in f32 (the property\'s premise); x in [0,1] where stated',
                          'f32::round = roundToIntegral(RNA); num_traits from_f32 = range check MIN-1 < x < MAX+1 then truncation (models, diff-tested)']
    validate(check, prog, enums, cases)
    check.run()
    for ob in check.obligations:
        if ob.result.status == 'sat':
            confirm(check, ob)
    return check.finish(rule='one obligation per (numeric type, lerp law); all a, b of the type (within the stated bound) and all f32 x')


def to_native(ty, v):
    if ty in ('f32',): return '%08x' % (v[1] if isinstance(v, tuple) else 0)
    if ty == 'f64': return '%016x' % (v[1] if isinstance(v, tuple) else 0)
    n = v[1] if isinstance(v, tuple) else (v or 0)
    bits = INT_BITS[ty]
    return str(signed_val(n, bits) if is_signed(ty) else n)


def confirm(check, ob):
    S = ob.S; ty = S.ty; mv = ob.result.model
    case = {'kind': 'lerp', 'ty': ty, 'a': to_native(ty, mv.get(str(S.a))), 'b': to_native(ty, mv.get(str(S.b))),
            'x': '%08x' % (mv.get(str(S.x), ('fp', 0))[1])}
    nat = run_replay([case], 'dev')[0]; nat_r = run_replay([case], 'release')[0]
    x = bits2f32(int(case['x'], 16))
    name = ob.name.split('.')[-1]
    viol = None
    if nat.get('panic') or nat_r.get('panic'):
        viol = f'lerp::<{ty}>({case["a"]}, {case["b"]}, {x!r}) panics: {nat.get("msg") or nat_r.get("msg")}'
    else:
        r = nat['r']
        if False: pass
        elif name in ('endpoint0', 'identity', 'identity-exact', 'identity-exact-wide') and r != nat['a']:
            viol = f'lerp::<{ty}>(a={nat["a_show"]}, b={nat["b_show"]}, x={x!r}) = {nat["r_show"]} != a'
        elif name == 'endpoint1' and r != nat['b']:
            viol = f'lerp::<{ty}>(a={nat["a_show"]}, b={nat["b_show"]}, x={x!r}) = {nat["r_show"]} != b'
        elif name == 'range-nopanic' and not nat['in_range']:
            viol = f'lerp::<{ty}>(a={nat["a_show"]}, b={nat["b_show"]}, x={x!r}) = {nat["r_show"]} outside [min,max]'
        elif name == 'identity-1ulp' and abs(int(r) - int(nat['a'])) > 1:
            viol = f'lerp::<f32>(a,a,x) = {nat["r_show"]} more than one ulp from a={nat["a_show"]} (x={x!r})'
        elif nat != nat_r:
            viol = f'dev/release differ: {nat} vs {nat_r}'
    if viol is None:
        check.inconclusive.append(f'{ob.name}: model did not reproduce natively: {case} -> {nat}')
        return
    check.report_violation(ob.name, ob.finding_key, viol, case)


def validate(check, prog, enums, cases):
    """translator validation: concrete vectors (the repo's own tests + boundaries + seeded random) through executor and native"""
    rng = check.rng
    vecs = [('u8', 0, 255, 0.0), ('u8', 0, 255, 0.25), ('u8', 0, 255, 0.5), ('u8', 0, 255, 1.0), ('i8', -64, 64, 0.25), ('i8', -64, 64, 0.5),
            ('i8', -128, 127, 0.25), ('i8', -128, 127, 0.999), ('u16', 65535, 0, 0.5), ('i32', -7, 8, 0.5), ('i32', -8, 7, 0.5), ('u64', 0, 1 << 40, 0.3),
            ('f32', f32bits(0.0), f32bits(1.0), 0.314), ('f32', f32bits(1.25e5), f32bits(6.77e5), 0.4), ('f32', f32bits(0.5), f32bits(0.5), 0.123)]
    for _ in range(40):
        ty = rng.choice(INTS + ['f32'])
        if ty == 'f32':
            vecs.append((ty, f32bits(rng.uniform(-1e6, 1e6)), f32bits(rng.uniform(-1e6, 1e6)), rng.random()))
        else:
            bits = min(INT_BITS[ty], 24)
            lo = -(1 << (bits - 1)) if is_signed(ty) else 0; hi = (1 << (bits - 1)) - 1 if is_signed(ty) else (1 << bits) - 1
            vecs.append((ty, rng.randint(lo, hi), rng.randint(lo, hi), rng.choice([0.0, 1.0, 0.5, rng.random()])))
    ncases = [{'kind': 'lerp', 'ty': ty, 'a': ('%08x' % a) if ty == 'f32' else str(a), 'b': ('%08x' % b) if ty == 'f32' else str(b), 'x': '%08x' % f32bits(x)} for ty, a, b, x in vecs]
    nat = run_replay(ncases, 'dev')
    mism = 0
    for (ty, a, b, x), nt in zip(vecs, nat):
        S = cases[ty]
        if ty == 'f32':
            sub = [(S.a, z3.fpBVToFP(z3.BitVecVal(a, 32), F32)), (S.b, z3.fpBVToFP(z3.BitVecVal(b, 32), F32)), (S.x, fpv32(x))]
        else:
            sub = [(S.a, z3.BitVecVal(a, INT_BITS[ty])), (S.b, z3.BitVecVal(b, INT_BITS[ty])), (S.x, fpv32(x))]
        p = z3.simplify(z3.substitute(S.panic, *sub)); r = z3.simplify(z3.substitute(S.res, *sub))
        if z3.is_true(p):
            ok = bool(nt.get('panic'))
        else:
            rv = z3.simplify(z3.fpToIEEEBV(r)).as_long() if ty == 'f32' else (signed_val(r.as_long(), INT_BITS[ty]) if is_signed(ty) else r.as_long())
            ok = (not nt.get('panic')) and str(rv) == str(nt['r'])
        if not ok:
            mism += 1; log('C14 validation mismatch', ty, a, b, x, 'exec', p, r, 'native', nt)
    check.validation['vectors'] += len(vecs); check.validation['mismatches'] += mism
    if mism:
        check.inconclusive.append(f'translator validation: {mism}/{len(vecs)} lerp vectors disagree with the native build')


if __name__ == '__main__':
    sys.exit(main(sys.argv[1] if len(sys.argv) > 1 else 'quick'))
