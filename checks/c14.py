"""C14 — linear interpolation obeys the lerp laws for every numeric type (real MIR of the Lerp impls)."""
from common import *

INTS = ['i8', 'u8', 'i16', 'u16', 'i32', 'u32', 'i64', 'u64', 'usize']
ZERO = fpv32(0.0); ONE = fpv32(1.0)


def lerp_fn(prog, ty):
    from mirsym.parser import type_head
    fs = [f for f in prog.by_last['lerp'] if f.crate == 'mina_core' and f.args and type_head(f.args[0][1]) == ty]
    assert len(fs) == 1, (ty, fs)
    return fs[0]


class LerpSummary:
    def __init__(self, prog, enums, ty, check, suffix=''):
        self.ty = ty
        if ty == 'f32': srt = F32
        elif ty == 'f64': srt = F64
        else: srt = z3.BitVecSort(INT_BITS[ty])
        self.a = z3.Const(f'a_{ty}{suffix}', srt); self.b = z3.Const(f'b_{ty}{suffix}', srt); self.x = z3.FP(f'x_{ty}{suffix}', F32)
        m = Machine(prog, enums, feas_timeout_ms=200, feas_mode='fp')
        f = lerp_fn(prog, ty)

        def h(m):
            return m.call_fn(f, [m.alloc(Sc(ty, self.a)), m.alloc(Sc(ty, self.b)), Sc('f32', self.x)])
        rs = m.explore(h)
        ok = [r for r in rs if r.outcome == 'ok']; pan = [r for r in rs if r.outcome == 'panic']
        for r in rs:
            if r.outcome in ('unsupported', 'truncated'):
                check.inconclusive.append(f'lerp<{ty}>: {r.msg}')
        self.panic = z3.Or([z3.And(r.pc) if r.pc else z3.BoolVal(True) for r in pan]) if pan else z3.BoolVal(False)
        res = None
        for r in ok:
            c = z3.And(r.pc) if r.pc else z3.BoolVal(True)
            res = r.value.t if res is None else z3.If(c, r.value.t, res)
        self.res = res
        self.paths = len(rs)
        check.note_machine(m)

    def exact_in_f32(self, v):
        """the integer value v is exactly representable in f32"""
        ty = self.ty
        if ty in ('f32',): return z3.BoolVal(True)
        bits = INT_BITS[ty]
        if bits <= 16: return z3.BoolVal(True)
        av = z3.If(v < 0, -v, v) if is_signed(ty) else v
        low = av & (-av)                       # lowest set bit
        # at most 24 significant bits:  av < low * 2^24  <=>  (av >> 24) < low
        return z3.Or(av == 0, z3.ULT(z3.LShR(av, 24), low))


def okey(bv):
    """order-preserving map of f32 bit patterns to unsigned integers (for 'within one ulp' claims)"""
    return z3.If(z3.Extract(31, 31, bv) == 1, ~bv, bv | z3.BitVecVal(0x80000000, 32))


def bits_of(x, name):
    b = z3.BitVec(name, 32)
    return b, [z3.fpBVToFP(b, F32) == x]


def main(tier):
    check = Check('C14', tier, 'proof')
    prog, enums, keys = load_program(['mina_core'])
    check.info['mir_source_hash'] = keys
    to = 100 if tier == 'quick' else 1500
    quick = tier == 'quick'
    cases = {}
    for ty in ['f32', 'f64'] + INTS:
        S = LerpSummary(prog, enums, ty, check)
        cases[ty] = S
        a, b, x, r = S.a, S.b, S.x, S.res
        mv = [a, b, x]
        if ty in ('f32', 'f64'):
            fina = [fin(a), fin(b)]
            if ty == 'f64':
                # "values exactly representable in f32"
                fina += [z3.fpFPToFP(RNE, z3.fpFPToFP(RNE, a, F32), F64) == a, z3.fpFPToFP(RNE, z3.fpFPToFP(RNE, b, F32), F64) == b]
            eq = lambda u, v: z3.fpEQ(u, v)
            pre = fina
        else:
            pre = [S.exact_in_f32(a), S.exact_in_f32(b)]
            eq = lambda u, v: u == v
        def ob(name, extra, neg, words, timeout=None, key=None, solvers=('cvc5', 'z3')):
            o = check.add(Obligation(f'C14.{ty}.{name}', pre + list(extra) + [neg], mv, timeout=timeout or to, words=words, finding_key=key, solvers=solvers))
            o.S = S; return o
        ob('endpoint0', [x == ZERO], z3.Or(S.panic, z3.Not(eq(r, a))), f'lerp(a,b,0) == a and no panic, all {ty} a,b exactly representable in f32')
        ob('endpoint1', [x == ONE], z3.Or(S.panic, z3.Not(eq(r, b))), f'lerp(a,b,1) == b and no panic, all {ty} a,b exactly representable in f32')
        xin = [z3.fpGEQ(x, ZERO), z3.fpLEQ(x, ONE)]
        xset = [z3.Or(x == fpv32(0.25), x == fpv32(0.5), x == fpv32(0.75), x == fpv32(1 / 3))]
        XSET = 'x in {1/4, 1/2, 3/4, f32(1/3)}'
        xeasy = [z3.Or(x == fpv32(0.25), x == fpv32(0.5), x == fpv32(0.75))]
        XEASY = 'x in {1/4, 1/2, 3/4}'
        def xgrid(nb):
            bx, c = bits_of(x, 'xbits_' + ty); return c + [z3.Extract(nb - 1, 0, bx) == 0]
        if ty == 'f32':
            # identity: literal reading (fails by one ulp -> known finding R2) and the enforced one-ulp bound
            ob('identity-exact', xin + [b == a], z3.Not(eq(r, a)), 'lerp(a,a,x) == a for x in [0,1] (literal reading)', key='C14:f32:identity-one-ulp', timeout=60)
            rb, c1 = bits_of(r, 'rbits'); ab, c2 = bits_of(a, 'abits')
            near = z3.Or(rb == ab, rb == ab + 1, rb == ab - 1, z3.And(z3.fpIsZero(r), z3.fpIsZero(a)))
            if quick:
                ob('identity-1ulp', xeasy + [b == a] + c1 + c2, z3.Not(near), f'lerp(a,a,x) is a or one of its two f32 neighbours, all finite a, {XEASY}')
            else:
                ob('identity-1ulp', xin + [b == a] + c1 + c2, z3.Not(near), 'lerp(a,a,x) is a or one of its two f32 neighbours for all x in [0,1], all finite a')
                ob('finite', xin + [z3.fpLEQ(z3.fpAbs(a), fpv32(2.0 ** 120)), z3.fpLEQ(z3.fpAbs(b), fpv32(2.0 ** 120))], z3.Not(fin(r)), 'x in [0,1], |a|,|b| <= 2^120: result finite')
            # between a and b up to one ulp, and monotone in x up to one ulp, on a grid of x (a constant x keeps the multiplier cheap)
            big = fpv32(2.0 ** 100)
            mag = [z3.fpLEQ(z3.fpAbs(a), big), z3.fpLEQ(z3.fpAbs(b), big), z3.fpLEQ(a, b)]
            ab_, c2b = bits_of(a, 'abits2'); bb_, c3b = bits_of(b, 'bbits2'); rb2, c1b = bits_of(r, 'rbits2')
            grid = [0.25, 0.5] if quick else [0.25, 0.5, 0.75, 1 / 3, 0.1, 0.9]
            tog = 300 if quick else to
            for xc in grid:
                ob(f'between-1ulp[x={xc:.4g}]', [x == fpv32(xc)] + mag + c1b + c2b + c3b, z3.Not(z3.And(z3.UGE(okey(rb2) + 1, okey(ab_)), z3.ULE(okey(rb2), okey(bb_) + 1))),
                   f'a <= b, |a|,|b| <= 2^100, x = {xc:.4g}: lerp(a,b,x) lies in [a,b] up to one ulp', timeout=tog)
            pts = [0.0] + sorted(grid) + [1.0]
            for xa, xb in zip(pts, pts[1:]):
                r1 = z3.substitute(r, (x, fpv32(xa))); r2 = z3.substitute(r, (x, fpv32(xb)))
                r1b, c5b = bits_of(r1, f'r1bits_{xa:.4g}'); r2b, c4b = bits_of(r2, f'r2bits_{xb:.4g}')
                o = check.add(Obligation(f'C14.f32.monotone-1ulp[x={xa:.4g},{xb:.4g}]', pre + mag + c5b + c4b + [z3.Not(z3.ULE(okey(r1b), okey(r2b) + 1))], [a, b], timeout=tog,
                                         words=f'a <= b, |a|,|b| <= 2^100: lerp(a,b,{xa:.4g}) <= lerp(a,b,{xb:.4g}) up to one ulp'))
                o.S = S; o.xpair = (xa, xb)
        elif ty == 'f64':
            # agreement with the real interpolation to f32 precision: reference evaluated in f64 (exact products for f32-representable a, b and
            # the grid x; one f64 rounding in the sum)
            big64 = z3.FPVal(2.0 ** 100, F64)
            x64 = z3.fpFPToFP(RNE, x, F64)
            exact = z3.fpAdd(RNE, z3.fpMul(RNE, a, z3.fpSub(RNE, z3.FPVal(1.0, F64), x64)), z3.fpMul(RNE, b, x64))
            mx = z3.If(z3.fpGEQ(z3.fpAbs(a), z3.fpAbs(b)), z3.fpAbs(a), z3.fpAbs(b))
            tol = z3.fpMul(RNE, mx, z3.FPVal(2.0 ** -22, F64))
            small64 = z3.FPVal(2.0 ** -100, F64)
            for xc in ([0.5] if quick else [0.25, 0.5, 0.75, 1 / 3]):
                ob(f'f32-precision[x={xc:.4g}]', [x == fpv32(xc), z3.fpLEQ(z3.fpAbs(a), big64), z3.fpLEQ(z3.fpAbs(b), big64), z3.Or(z3.fpIsZero(a), z3.fpGEQ(z3.fpAbs(a), small64)), z3.Or(z3.fpIsZero(b), z3.fpGEQ(z3.fpAbs(b), small64))],
                   z3.Or(S.panic, z3.Not(z3.fpLEQ(z3.fpAbs(z3.fpSub(RNE, r, exact)), tol))),
                   f'f64, a, b zero or 2^-100 <= |.| <= 2^100 (f32-representable; no f32 underflow), x = {xc:.4g}: |lerp - (a(1-x)+bx)| <= 2^-22 max(|a|,|b|)', timeout=300 if quick else to)
            if not quick:
                ob('finite', xin, z3.Not(fin(r)), 'f64 (f32-representable a,b), x in [0,1]: result finite')
        else:
            bits = INT_BITS[ty]; sg = is_signed(ty)
            le = (lambda u, v: u <= v) if sg else (lambda u, v: z3.ULE(u, v))
            lo = z3.If(le(a, b), a, b); hi = z3.If(le(a, b), b, a)
            inrange = z3.And(le(lo, r), le(r, hi))
            if bits == 8 or (bits == 16 and not quick):
                # "the real interpolation rounded to nearest": for x = k/16 the real value is N/16 with the INTEGER N = a (16 - k) + b k;
                # claim |16 r - N| <= 8 + 1 (ties either way; the +1 absorbs the f32 error of a(1-x)+bx, far below 1/16).  One query per
                # grid point (a constant x keeps the multiplier cheap), all a, b of the type in each.  Monotone in x: consecutive grid
                # points (transitivity gives every pair).
                W = 32
                ext = (lambda v: z3.SignExt(W - bits, v)) if sg else (lambda v: z3.ZeroExt(W - bits, v))
                for k in range(17):
                    xv = fpv32(k / 16.0)
                    rk = z3.substitute(r, (x, xv)); pk = z3.substitute(S.panic, (x, xv))
                    N = ext(a) * z3.BitVecVal(16 - k, W) + ext(b) * z3.BitVecVal(k, W)
                    diff = ext(rk) * z3.BitVecVal(16, W) - N
                    absd = z3.If(diff < 0, -diff, diff)
                    o = check.add(Obligation(f'C14.{ty}.nearest[x={k}/16]', pre + [z3.Or(pk, z3.Not(absd <= z3.BitVecVal(9, W)))], [a, b], timeout=to,
                                             words=f'x = {k}/16, ALL {ty} a,b: lerp is the real interpolation a + x(b-a) rounded to nearest (|error| <= 1/2 + 1/16), no panic'))
                    o.S = S; o.xconst = k / 16.0
                    if k < 16:
                        xv2 = fpv32((k + 1) / 16.0)
                        r2 = z3.substitute(r, (x, xv2)); p2 = z3.substitute(S.panic, (x, xv2))
                        o = check.add(Obligation(f'C14.{ty}.monotone[x={k}/16,{k + 1}/16]', pre + [le(a, b), z3.Or(pk, p2, z3.Not(le(rk, r2)))], [a, b], timeout=to,
                                                 words=f'a <= b: lerp(a,b,{k}/16) <= lerp(a,b,{k + 1}/16), ALL {ty} a,b'))
                        o.S = S; o.xpair = (k / 16.0, (k + 1) / 16.0)
            if bits == 8:
                g = xgrid(20) if quick else []
                gw = ' (quick: low 20 mantissa bits of x zero)' if quick else ''
                ob('range-nopanic', xin + g, z3.Or(S.panic, z3.Not(inrange)), f'x in [0,1]: no panic and min(a,b) <= lerp <= max(a,b), ALL {ty} a,b' + gw)
                ob('identity', xin + g + [b == a], z3.Or(S.panic, r != a), f'lerp(a,a,x) == a for x in [0,1], all {ty} a' + gw)
            elif bits == 16:
                if quick:
                    ob('identity', xset + [b == a], z3.Or(S.panic, r != a), f'lerp(a,a,x) == a, all {ty} a, {XSET}')
                else:
                    ob('range-nopanic', xin, z3.Or(S.panic, z3.Not(inrange)), f'x in [0,1]: no panic and min <= lerp <= max, ALL {ty} a,b')
                    ob('identity', xin + [b == a], z3.Or(S.panic, r != a), f'lerp(a,a,x) == a for x in [0,1], all {ty} a')
            else:
                # exact instances of "the real interpolation rounded to nearest" for the wide types: with one endpoint 0 and x = 2^-k
                # (resp. 1 - 2^-k) the f32 computation is exact (multiplication by a power of two), so the result must be b / 2^k (resp.
                # a / 2^k) rounded to nearest, for EVERY f32-representable value of the other endpoint.  Reference in integer arithmetic.
                W2 = bits + 2
                exw = (lambda v: z3.SignExt(2, v)) if sg else (lambda v: z3.ZeroExt(2, v))
                for kx in (1, 8, 20, 24):
                    half = z3.BitVecVal(1 << (kx - 1), W2)
                    def rnd(v):
                        vv = exw(v); mag = z3.If(vv < 0, -vv, vv)
                        q = z3.LShR(mag + half, kx)            # round half away from zero (ties: either neighbour is accepted below)
                        return z3.If(vv < 0, -q, q), z3.LShR(mag + half - 1, kx)
                    for which, xc, other_zero, moving in (('a=0', 2.0 ** -kx, a == 0, b), ('b=0', 1.0 - 2.0 ** -kx, b == 0, a)):
                        qa, qt = rnd(moving)
                        vv = exw(moving); neg = vv < 0
                        alt = z3.If(neg, -qt, qt)              # the other admissible neighbour on an exact tie
                        o = check.add(Obligation(f'C14.{ty}.nearest-pow2[{which},x={"1-" if which == "b=0" else ""}2^-{kx}]', pre + [other_zero, x == fpv32(xc), z3.Or(S.panic, z3.And(exw(r) != qa, exw(r) != alt))], mv, timeout=to,
                                                 words=f'{which}, x = {"1 - " if which == "b=0" else ""}2^-{kx}: lerp is the other endpoint / 2^{kx} rounded to nearest (the f32 computation is exact here), every f32-representable {ty} value'))
                        o.S = S; o.pow2 = (which, kx)
                lim = 1 << 22
                inr = (lambda v: z3.And(v <= lim, v >= -lim)) if sg else (lambda v: z3.ULE(v, z3.BitVecVal(lim, bits)))
                # literal reading for every f32-representable value: fails above 2^22 (float rounding) -> known finding
                ob('identity-exact-wide', xset + [b == a], z3.Or(S.panic, r != a), f'lerp(a,a,x) == a for every f32-representable {ty} a, {XSET} (literal reading)',
                   key='C14:wide-int:identity-above-2^22', timeout=60)
                if quick:
                    ob('identity', xeasy + [b == a, inr(a)], z3.Or(S.panic, r != a), f'lerp(a,a,x) == a, |a| <= 2^22, {XEASY}')
                else:
                    ob('identity', xin + [b == a, inr(a)], z3.Or(S.panic, r != a), f'lerp(a,a,x) == a for x in [0,1], |a| <= 2^22')
                    ob('range-nopanic', xin + [inr(a), inr(b)], z3.Or(S.panic, z3.Not(inrange)), f'x in [0,1], |a|,|b| <= 2^22: no panic and min <= lerp <= max')
    check.assumptions += ['a, b exactly representable in f32 (the property\'s premise); x in [0,1] where stated',
                          'f32::round = roundToIntegral(RNA); num_traits from_f32 = range check MIN-1 < x < MAX+1 then truncation (models, diff-tested)']
    validate(check, prog, enums, cases)
    glam_part(check)
    check.run()
    for ob in check.obligations:
        if ob.result.status == 'sat' and not hasattr(ob, 'glam'):
            confirm(check, ob)
    return check.finish(rule='one obligation per (numeric type, lerp law); all a, b of the type (within the stated bound) and all f32 x')


GLAM_ELEM = {'Vec': 'f32', 'DVec': 'f64', 'IVec': 'i32', 'I64Vec': 'i64', 'UVec': 'u32', 'U64Vec': 'u64'}


def glam_part(check):
    """glam vector types interpolate component-wise: the real MIR of every macro-generated impl in core/src/glam.rs (feature `glam`) is
    executed with symbolic components; the scalar `<elem as Lerp>::lerp` calls are left uninterpreted, so the result names which
    components were combined; glam's own constructors / Deref views are the only models"""
    from structural import ov_lerp_uf, L_UF
    from mirsym.parser import type_head
    try:
        path, key = dump_mir('mina_core', features='glam')
    except Exception as e:
        check.inconclusive.append(f'glam: MIR dump with --features glam failed ({e})'); return
    prog = Program(); prog.add_text(open(path).read(), 'mina_core', [REPO])
    enums = parse_enums([os.path.join(REPO, 'core/src')])
    check.info.setdefault('mir_source_hash', {})['mina_core+glam'] = key
    fns = [f for f in prog.by_last.get('lerp', []) if 'glam' in f.name and f.args]
    class R: pass
    seen = []
    for f in fns:
        T = type_head(f.args[0][1])
        mm = re.fullmatch(r'(U64Vec|I64Vec|DVec|IVec|UVec|Vec)([234])A?', T)
        if not mm:
            continue            # Quat / DQuat delegate to glam's own normalising lerp: not component-wise by design (outside the claim)
        elem, n = GLAM_ELEM[mm.group(1)], int(mm.group(2))
        srt = F32 if elem == 'f32' else F64 if elem == 'f64' else z3.BitVecSort(INT_BITS[elem])
        av = [z3.Const(f'ga{i}_{T}', srt) for i in range(n)]; bv = [z3.Const(f'gb{i}_{T}', srt) for i in range(n)]; t = z3.FP(f'gt_{T}', F32)
        ov = [(re.compile(r' as Lerp>::lerp$'), ov_lerp_uf),
              (re.compile(r'(^|::)(U64Vec|I64Vec|DVec|IVec|UVec|Vec)[234]A?::new$'), lambda m, c, a, T=T: Agg(T, list(a))),
              (re.compile(r'<(U64Vec|I64Vec|DVec|IVec|UVec|Vec)[234]A? as Deref>::deref$'), lambda m, c, a: a[0]),
              # any other function of glam itself (e.g. its own `lerp`, which is a + (b - a) t): opaque, NOT the component-wise terms
              (re.compile(r'(^|::)(U64Vec|I64Vec|DVec|IVec|UVec|Vec)[234]A?::\w+$'),
               lambda m, c, a, T=T, n=n, elem=elem, srt=srt: Agg(T, [Sc(elem, z3.Const(f'glam_opaque_{T}_{i}', srt)) for i in range(n)]))]
        m = Machine(prog, enums, overrides=ov)
        def h(m):
            return m.call_fn(f, [m.alloc(Agg(T, [Sc(elem, x) for x in av])), m.alloc(Agg(T, [Sc(elem, x) for x in bv])), Sc('f32', t)])
        rs = [r for r in m.explore(h) if r.outcome != 'infeasible']
        check.note_machine(m)
        ob = check.add(Obligation(f'C14.glam.{T}.component-wise', [], [], words=f'{T}::lerp(a, b, t) == {T}::new(' + ', '.join(f'a.{c}.lerp(&b.{c}, t)' for c in 'xyzw'[:n]) + ') for all components and t'))
        rr = R(); rr.secs = 0.0; rr.solver = 'symbolic-execution (term identity)'; rr.detail = ''; rr.model = {}
        ok = len(rs) == 1 and rs[0].outcome == 'ok' and isinstance(rs[0].value, Agg) and len(rs[0].value.f) == n and \
            all(isinstance(rs[0].value.f[i], Sc) and rs[0].value.f[i].t.eq(L_UF[elem](av[i], bv[i], t)) for i in range(n))
        if len(rs) != 1 or rs[0].outcome != 'ok':
            check.inconclusive.append(f'glam {T}: {[(r.outcome, r.msg) for r in rs][:2]}')
            rr.status = 'unknown'
        else:
            rr.status = 'unsat' if ok else 'sat'
        ob.result = rr; ob.glam = (T, elem, n); seen.append(T)
        if rr.status == 'sat':
            # native: distinct components so that a mixed-up component is visible
            probes = [([float(3 * i + 1) for i in range(n)], [float(40 * (i + 1)) for i in range(n)], 0.25),
                      ([-16777216.0] * n if elem in ('f32', 'f64', 'i32', 'i64') else [16777216.0] * n, [1.5 + i for i in range(n)] if elem in ('f32', 'f64') else [float(3 + i) for i in range(n)], 1.0),
                      ([float(7 * (i + 1)) for i in range(n)], [float(1000003 * (i + 1)) for i in range(n)], 1 / 3), ([0.1 * (i + 1) for i in range(n)], [float(2 ** 20 + i) for i in range(n)], 0.7)]
            cases = [{'kind': 'glam_lerp', 'ty': T, 'a': [str(v if elem in ('f32', 'f64') else float(int(v))) for v in pa], 'b': [str(v if elem in ('f32', 'f64') else float(int(v))) for v in pb], 'x': '%08x' % f32bits(px)} for pa, pb, px in probes]
            try:
                nats = run_replay(cases, 'dev')
                hit = next(((c, nt) for c, nt in zip(cases, nats) if nt.get('same') is False), None)
                if hit:
                    case, nat = hit
                    check.report_violation(ob.name, None, f'{T}::lerp is not component-wise: {nat["r"]} but the components interpolate to {nat["componentwise"]} (a = {case["a"]}, b = {case["b"]}, t = {bits2f32(int(case["x"], 16))!r}); executor: {[str(x.t)[:60] for x in rs[0].value.f]}', case)
                else:
                    check.inconclusive.append(f'{ob.name}: structural counterexample did not reproduce natively: {nats[:1]}')
            except Exception as e:
                check.inconclusive.append(f'{ob.name}: glam replay unavailable ({e})')
    check.info['glam_types'] = seen
    if len(seen) != 19:
        check.inconclusive.append(f'glam: expected the 19 vector impls of core/src/glam.rs, found {len(seen)}: {seen}')


def to_native(ty, v):
    if ty in ('f32',): return '%08x' % (v[1] if isinstance(v, tuple) else 0)
    if ty == 'f64': return '%016x' % (v[1] if isinstance(v, tuple) else 0)
    n = v[1] if isinstance(v, tuple) else (v or 0)
    bits = INT_BITS[ty]
    return str(signed_val(n, bits) if is_signed(ty) else n)


def confirm_monotone(check, ob):
    S = ob.S; ty = S.ty; mv = ob.result.model
    def val(name, d=0):
        v = mv.get(name); return v[1] if isinstance(v, tuple) else (v or d)
    xs = list(ob.xpair)
    cases = [{'kind': 'lerp', 'ty': ty, 'a': to_native(ty, mv.get(str(S.a))), 'b': to_native(ty, mv.get(str(S.b))), 'x': '%08x' % f32bits(x)} for x in xs]
    n1, n2 = run_replay(cases, 'dev')
    if n1.get('panic') or n2.get('panic'):
        check.report_violation(ob.name, None, f'lerp::<{ty}>({cases[0]["a"]}, {cases[0]["b"]}, x in {xs}) panics', cases[0]); return
    if ty == 'f32':
        import numpy as np
        r1, r2 = bits2f32(int(n1['r'])), bits2f32(int(n2['r']))
        bad = r1 > float(np.nextafter(np.float32(r2), np.float32(np.inf)))
    else:
        r1, r2 = int(n1['r']), int(n2['r']); bad = r1 > r2
    if bad:
        check.report_violation(ob.name, None, f'lerp::<{ty}>(a={n1["a_show"]}, b={n1["b_show"]}, x) is not monotone: x={xs[0]!r} -> {n1["r_show"]}, x={xs[1]!r} -> {n2["r_show"]}', cases[0])
    else:
        check.inconclusive.append(f'{ob.name}: model did not reproduce natively: {cases} -> {n1} {n2}')


def confirm(check, ob):
    if ob.name.split('.')[-1].startswith('monotone'):
        return confirm_monotone(check, ob)
    S = ob.S; ty = S.ty; mv = ob.result.model
    case = {'kind': 'lerp', 'ty': ty, 'a': to_native(ty, mv.get(str(S.a))), 'b': to_native(ty, mv.get(str(S.b))),
            'x': '%08x' % (f32bits(ob.xconst) if hasattr(ob, 'xconst') else mv.get(str(S.x), ('fp', 0))[1])}
    nat = run_replay([case], 'dev')[0]; nat_r = run_replay([case], 'release')[0]
    x = bits2f32(int(case['x'], 16))
    name = ob.name.split('.')[-1]
    if name.startswith('nearest['): name = 'nearest-on-grid'
    viol = None
    if nat.get('panic') or nat_r.get('panic'):
        viol = f'lerp::<{ty}>({case["a"]}, {case["b"]}, {x!r}) panics: {nat.get("msg") or nat_r.get("msg")}'
    else:
        r = nat['r']
        if False: pass
        elif name in ('endpoint0', 'identity', 'identity-exact', 'identity-exact-wide') and r != nat['a']:
            viol = f'lerp::<{ty}>(a={nat["a_show"]}, b={nat["b_show"]}, x={x!r}) = {nat["r_show"]} != a'
        elif name == 'endpoint1' and r != nat['b']:
            viol = f'lerp::<{ty}>(a={nat["a_show"]}, b={nat["b_show"]}, x={x!r}) = {nat["r_show"]} != b'
        elif name == 'range-nopanic' and not nat['in_range']:
            viol = f'lerp::<{ty}>(a={nat["a_show"]}, b={nat["b_show"]}, x={x!r}) = {nat["r_show"]} outside [min,max]'
        elif name == 'identity-1ulp' and abs(int(r) - int(nat['a'])) > 1:
            viol = f'lerp::<f32>(a,a,x) = {nat["r_show"]} more than one ulp from a={nat["a_show"]} (x={x!r})'
        elif name == 'nearest-on-grid':
            mb = 4; ai, bi, ri = int(nat['a']), int(nat['b']), int(r)
            k = round(x * (1 << mb)); N = ai * ((1 << mb) - k) + bi * k
            if abs(ri * (1 << mb) - N) > (1 << (mb - 1)) + 1:
                viol = f'lerp::<{ty}>(a={ai}, b={bi}, x={x!r}) = {ri}, but the real interpolation is {N / (1 << mb)!r}: not rounded to nearest'
        elif name.startswith('nearest-pow2'):
            which, kx = ob.pow2; ai, bi, ri = int(nat['a']), int(nat['b']), int(r)
            import fractions
            real = fractions.Fraction(bi, 2 ** kx) if which == 'a=0' else fractions.Fraction(ai, 2 ** kx)
            if abs(fractions.Fraction(ri) - real) > fractions.Fraction(1, 2):
                viol = f'lerp::<{ty}>(a={ai}, b={bi}, x={x!r}) = {ri}, but the real interpolation is {float(real)!r}: not rounded to nearest'
        elif name.startswith('between-1ulp') and not nat.get('in_range'):
            af, bf, rf = bits2f32(int(nat['a'])), bits2f32(int(nat['b'])), bits2f32(int(r))
            import numpy as np
            lo = float(np.nextafter(np.float32(min(af, bf)), np.float32(-np.inf))); hi = float(np.nextafter(np.float32(max(af, bf)), np.float32(np.inf)))
            if not (lo <= rf <= hi): viol = f'lerp::<f32>(a={af!r}, b={bf!r}, x={x!r}) = {rf!r} lies outside [a,b] by more than one ulp'
        elif name.startswith('f32-precision'):
            import struct as _s
            af = _s.unpack('>d', bytes.fromhex(case['a']))[0]; bf = _s.unpack('>d', bytes.fromhex(case['b']))[0]
            rf = _s.unpack('>d', _s.pack('>Q', int(r)))[0] if str(r).lstrip('-').isdigit() else float('nan')
            exact = af * (1 - x) + bf * x
            if not abs(rf - exact) <= 2.0 ** -22 * max(abs(af), abs(bf)): viol = f'lerp::<f64>(a={af!r}, b={bf!r}, x={x!r}) = {rf!r}; the real interpolation is {exact!r}'
        elif nat != nat_r:
            viol = f'dev/release differ: {nat} vs {nat_r}'
    if viol is None:
        check.inconclusive.append(f'{ob.name}: model did not reproduce natively: {case} -> {nat}')
        return
    check.report_violation(ob.name, ob.finding_key, viol, case)


def validate(check, prog, enums, cases):
    """translator validation: concrete vectors (the repo's own tests + boundaries + seeded random) through executor and native"""
    rng = check.rng
    vecs = [('u8', 0, 255, 0.0), ('u8', 0, 255, 0.25), ('u8', 0, 255, 0.5), ('u8', 0, 255, 1.0), ('i8', -64, 64, 0.25), ('i8', -64, 64, 0.5),
            ('i8', -128, 127, 0.25), ('i8', -128, 127, 0.999), ('u16', 65535, 0, 0.5), ('i32', -7, 8, 0.5), ('i32', -8, 7, 0.5), ('u64', 0, 1 << 40, 0.3),
            ('f32', f32bits(0.0), f32bits(1.0), 0.314), ('f32', f32bits(1.25e5), f32bits(6.77e5), 0.4), ('f32', f32bits(0.5), f32bits(0.5), 0.123)]
    for _ in range(40):
        ty = rng.choice(INTS + ['f32'])
        if ty == 'f32':
            vecs.append((ty, f32bits(rng.uniform(-1e6, 1e6)), f32bits(rng.uniform(-1e6, 1e6)), rng.random()))
        else:
            bits = min(INT_BITS[ty], 24)
            lo = -(1 << (bits - 1)) if is_signed(ty) else 0; hi = (1 << (bits - 1)) - 1 if is_signed(ty) else (1 << bits) - 1
            vecs.append((ty, rng.randint(lo, hi), rng.randint(lo, hi), rng.choice([0.0, 1.0, 0.5, rng.random()])))
    ncases = [{'kind': 'lerp', 'ty': ty, 'a': ('%08x' % a) if ty == 'f32' else str(a), 'b': ('%08x' % b) if ty == 'f32' else str(b), 'x': '%08x' % f32bits(x)} for ty, a, b, x in vecs]
    nat = run_replay(ncases, 'dev')
    mism = 0
    for (ty, a, b, x), nt in zip(vecs, nat):
        S = cases[ty]
        if ty == 'f32':
            sub = [(S.a, z3.fpBVToFP(z3.BitVecVal(a, 32), F32)), (S.b, z3.fpBVToFP(z3.BitVecVal(b, 32), F32)), (S.x, fpv32(x))]
        else:
            sub = [(S.a, z3.BitVecVal(a, INT_BITS[ty])), (S.b, z3.BitVecVal(b, INT_BITS[ty])), (S.x, fpv32(x))]
        p = z3.simplify(z3.substitute(S.panic, *sub)); r = z3.simplify(z3.substitute(S.res, *sub))
        if z3.is_true(p):
            ok = bool(nt.get('panic'))
        else:
            rv = z3.simplify(z3.fpToIEEEBV(r)).as_long() if ty == 'f32' else (signed_val(r.as_long(), INT_BITS[ty]) if is_signed(ty) else r.as_long())
            ok = (not nt.get('panic')) and str(rv) == str(nt['r'])
        if not ok:
            mism += 1; log('C14 validation mismatch', ty, a, b, x, 'exec', p, r, 'native', nt)
    check.validation['vectors'] += len(vecs); check.validation['mismatches'] += mism
    if mism:
        check.inconclusive.append(f'translator validation: {mism}/{len(vecs)} lerp vectors disagree with the native build')


if __name__ == '__main__':
    sys.exit(main(sys.argv[1] if len(sys.argv) > 1 else 'quick'))
