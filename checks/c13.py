"""C13 — easing curves: fixed endpoints, range, monotonicity, mirror symmetry, definitions.
The real MIR of <Easing as EasingFunction>::calc (30-arm dispatch), the lazy_static initialisers, CubicBezierEasing
and lyon_geom's CubicBezierSegment::y is executed with symbolic x."""
from fractions import Fraction
from common import *

ZERO = fpv32(0.0); ONE = fpv32(1.0)
TOL = z3.RealVal('1/1000000')
MIRROR_PAIRS = [('In', 'Out'), ('InSine', 'OutSine'), ('InQuad', 'OutQuad'), ('InCubic', 'OutCubic'), ('InQuart', 'OutQuart'),
                ('InQuint', 'OutQuint'), ('InExpo', 'OutExpo'), ('InCirc', 'OutCirc'), ('InBack', 'OutBack')]
SELF_MIRROR = ['InOut', 'InOutSine', 'InOutQuad', 'InOutCubic', 'InOutQuart', 'InOutQuint', 'InOutExpo', 'InOutCirc', 'InOutBack', 'Linear']
BACK = ('InBack', 'OutBack', 'InOutBack')


def fp_to_real(e, memo):
    """the real-arithmetic reading of an FP term (every operation exact): used for the NRA queries"""
    k = e.get_id()
    if k in memo: return memo[k][1]
    if z3.is_fp_value(e):
        r = z3.simplify(z3.fpToReal(e))
    elif z3.is_const(e):
        r = z3.Real('R_' + str(e))
    else:
        kind = e.decl().kind(); ch = e.children()
        if kind == z3.Z3_OP_FPA_ADD: r = fp_to_real(ch[1], memo) + fp_to_real(ch[2], memo)
        elif kind == z3.Z3_OP_FPA_SUB: r = fp_to_real(ch[1], memo) - fp_to_real(ch[2], memo)
        elif kind == z3.Z3_OP_FPA_MUL: r = fp_to_real(ch[1], memo) * fp_to_real(ch[2], memo)
        elif kind == z3.Z3_OP_FPA_DIV: r = fp_to_real(ch[1], memo) / fp_to_real(ch[2], memo)
        elif kind == z3.Z3_OP_FPA_NEG: r = -fp_to_real(ch[0], memo)
        elif kind == z3.Z3_OP_ITE: r = z3.If(bool_to_real(ch[0], memo), fp_to_real(ch[1], memo), fp_to_real(ch[2], memo))
        elif kind == z3.Z3_OP_FPA_ABS:
            a = fp_to_real(ch[0], memo); r = z3.If(a < 0, -a, a)
        elif kind in (z3.Z3_OP_FPA_MIN, z3.Z3_OP_FPA_MAX):
            a, b = fp_to_real(ch[0], memo), fp_to_real(ch[1], memo)
            r = z3.If(a <= b, a, b) if kind == z3.Z3_OP_FPA_MIN else z3.If(a >= b, a, b)
        else: raise Unsupported('fp_to_real ' + str(e.decl()))
    memo[k] = (e, r)
    return r


def bool_to_real(e, memo):
    """real-arithmetic reading of a Boolean combination of FP comparisons (finite operands: x is in [0,1])"""
    kind = e.decl().kind(); ch = e.children()
    if kind == z3.Z3_OP_TRUE or kind == z3.Z3_OP_FALSE: return e
    if kind == z3.Z3_OP_AND: return z3.And([bool_to_real(c, memo) for c in ch])
    if kind == z3.Z3_OP_OR: return z3.Or([bool_to_real(c, memo) for c in ch])
    if kind == z3.Z3_OP_NOT: return z3.Not(bool_to_real(ch[0], memo))
    if kind == z3.Z3_OP_FPA_LT: return fp_to_real(ch[0], memo) < fp_to_real(ch[1], memo)
    if kind == z3.Z3_OP_FPA_LE: return fp_to_real(ch[0], memo) <= fp_to_real(ch[1], memo)
    if kind == z3.Z3_OP_FPA_GT: return fp_to_real(ch[0], memo) > fp_to_real(ch[1], memo)
    if kind == z3.Z3_OP_FPA_GE: return fp_to_real(ch[0], memo) >= fp_to_real(ch[1], memo)
    if kind in (z3.Z3_OP_FPA_EQ, z3.Z3_OP_EQ) and z3.is_fp(ch[0]): return fp_to_real(ch[0], memo) == fp_to_real(ch[1], memo)
    if kind in (z3.Z3_OP_FPA_IS_NAN, z3.Z3_OP_FPA_IS_INF): return z3.BoolVal(False)
    if kind == z3.Z3_OP_FPA_IS_ZERO: return fp_to_real(ch[0], memo) == 0
    if kind == z3.Z3_OP_FPA_IS_NEGATIVE: return fp_to_real(ch[0], memo) < 0
    raise Unsupported('bool_to_real ' + str(e.decl()))


def merged_term(rs):
    """the value of calc as ONE term: an if-then-else over the path conditions when the code branches on x"""
    oks = [r for r in rs if r.outcome == 'ok']
    if not oks or len(oks) != len([r for r in rs if r.outcome != 'infeasible']): return None
    t = oks[-1].value.t
    for r in reversed(oks[:-1]):
        t = z3.If(z3.And(r.pc) if r.pc else z3.BoolVal(True), r.value.t, t)
    return t


def main(tier):
    check = Check('C13', tier, 'proof')
    prog, enums, keys = load_program(['mina_core', 'lyon_geom'])
    check.info['mir_source_hash'] = keys
    table = json.load(open(os.path.join(VERIF, 'oracles', 'easings.json')))
    variants = [v for v, d in enums['Easing'] if v != 'Custom']
    calc = [f for f in prog.by_last['calc'] if f.impl_self == 'Easing'][0]
    x = z3.FP('x', F32)
    terms = {}
    m = Machine(prog, enums, feas_mode='fp', feas_timeout_ms=200)
    for name, d in enums['Easing']:
        if name == 'Custom': continue
        def h(m, d=d):
            return m.call_fn(calc, [m.alloc(En('Easing', d, {d: []})), Sc('f32', x)])
        rs = m.explore(h)
        t_ = merged_term(rs)
        if t_ is None:
            check.inconclusive.append(f'calc({name}): {[(r.outcome, r.msg) for r in rs][:2]}'); continue
        terms[name] = t_
    # Custom(c).calc(x) is exactly c.calc(x)
    from structural import tag_easing, ov_easing_uf, E_UF
    m2 = Machine(prog, enums, overrides=[(re.compile(r'<dyn EasingFunction as EasingFunction>::calc$'), ov_easing_uf)], feas_mode='fp')
    def hc(m):
        return m.call_fn(calc, [m.alloc(tag_easing(7)), Sc('f32', x)])
    rs = m2.explore(hc)
    tc = merged_term(rs)
    if tc is not None:
        check.add(Obligation('C13.custom-used-as-given', [z3.Not(z3.fpIsNaN(x)), z3.Not(tc == E_UF(z3.IntVal(7), x))], [x], words='Easing::Custom(c).calc(x) is exactly c.calc(x), for every x', solvers=('z3',)))
    else:
        check.inconclusive.append(f'calc(Custom): {[(r.outcome, r.msg) for r in rs][:2]}')
    check.note_machine(m); check.note_machine(m2)
    to = 60 if tier == 'quick' else 1800
    R = {}; memo = {}
    xr = z3.Real('R_x')
    for name, t in terms.items():
        # ---- bit-precise endpoint laws
        check.add(Obligation(f'C13.{name}.calc(0)==0', [x == ZERO, z3.Not(z3.fpEQ(t, ZERO))], [x], timeout=to, words=f'{name}: calc(0.0) == 0.0 exactly (f32)'))
        check.add(Obligation(f'C13.{name}.calc(1)==1', [x == ONE, z3.Not(t == ONE)], [x], timeout=to, words=f'{name}: calc(1.0) == 1.0 exactly (f32)'))
        try:
            R[name] = fp_to_real(t, memo)
        except Unsupported as e:
            check.inconclusive.append(f'calc({name}): {e}')
    if 'Linear' in terms:
        check.add(Obligation('C13.Linear.identity', [z3.Not(z3.Or(terms['Linear'] == x))], [x], timeout=to, words='Linear.calc(x) is x for every f32 x'))
    inx = [xr >= 0, xr <= 1]
    u = z3.Real('R_u')
    for name in terms:
        if name == 'Linear' or name not in R: continue
        f = R[name]; fu = z3.substitute(f, (xr, u))
        if name not in BACK:
            check.add(Obligation(f'C13.{name}.range', inx + [z3.Or(f < 0, f > 1)], [xr], timeout=to, solvers=('z3',), words=f'{name}: 0 <= calc(x) <= 1 for all real x in [0,1] (exact arithmetic reading of the code\'s polynomial)'))
            check.add(Obligation(f'C13.{name}.monotone', inx + [u >= 0, u <= 1, xr <= u, f > fu], [xr, u], timeout=to, solvers=('z3',), words=f'{name}: x <= u => calc(x) <= calc(u) on [0,1] (real arithmetic)'))
        # definition, enforced part: the code's curve is the published Bezier's Y evaluated at parameter t = x
        if name in table:
            x1, y1, x2, y2 = [Fraction(str(v)) for v in table[name]]
            # control values as f32-rounded constants (what a correct table holds)
            from mirsym.machine import f32_from_decimal
            y1f, y2f = Fraction(f32_from_decimal(str(table[name][1]))), Fraction(f32_from_decimal(str(table[name][3])))
            Y = lambda t_, a, b: 3 * (1 - t_) * (1 - t_) * t_ * z3.RealVal(str(a)) + 3 * (1 - t_) * t_ * t_ * z3.RealVal(str(b)) + t_ * t_ * t_
            check.add(Obligation(f'C13.{name}.published-constants', inx + [f != Y(xr, y1f, y2f)], [xr], timeout=to, solvers=('z3',),
                                 words=f'{name}: the evaluated polynomial is Y(t=x) of the PUBLISHED control points {table[name]} (catches a wrong constant or dispatch arm)'))
            # definition, literal reading: calc(x) = Y(t) where X(t) = x  -> known finding F1 (t-parametrisation)
            tt = z3.Real('R_t')
            X = lambda t_: 3 * (1 - t_) * (1 - t_) * t_ * z3.RealVal(str(x1)) + 3 * (1 - t_) * t_ * t_ * z3.RealVal(str(x2)) + t_ * t_ * t_
            gap = f - Y(tt, y1, y2)
            o = check.add(Obligation(f'C13.{name}.definition', inx + [tt >= 0, tt <= 1, X(tt) == xr, z3.Or(gap > z3.RealVal('1/1000'), gap < z3.RealVal('-1/1000'))], [xr, tt],
                                     timeout=to, solvers=('z3',), finding_key='C13:cubic-bezier:t-parametrisation',
                                     words=f'{name}: calc(x) equals the cubic-bezier timing function (Y at the parameter where X = x) within 1e-3'))
            o.easing = name
    for a, b in MIRROR_PAIRS:
        if a in R and b in R:
            fb1 = z3.substitute(R[a], (xr, 1 - xr))
            check.add(Obligation(f'C13.mirror.{a}-{b}', inx + [z3.Or(R[b] - (1 - fb1) > TOL, R[b] - (1 - fb1) < -TOL)], [xr], timeout=to, solvers=('z3',), words=f'|{b}(x) - (1 - {a}(1-x))| <= 1e-6 on [0,1] (real arithmetic over the f32 control constants)'))
    for a in SELF_MIRROR:
        if a in R:
            f1 = z3.substitute(R[a], (xr, 1 - xr))
            check.add(Obligation(f'C13.mirror.{a}-self', inx + [z3.Or(R[a] - (1 - f1) > TOL, R[a] - (1 - f1) < -TOL)], [xr], timeout=to, solvers=('z3',), words=f'|{a}(x) - (1 - {a}(1-x))| <= 1e-6 on [0,1] (real arithmetic over the f32 control constants)'))
    check.assumptions += ['range / monotonicity / mirror identities are decided in exact real arithmetic on the polynomial extracted from the executed MIR ("to float rounding" in the property); the f32 endpoint laws are bit-precise',
                          'lyon_geom Scalar constants ONE/THREE resolved at f32 (the only instantiation mina uses)']
    check.run()
    seen_def = False
    cases = []
    for ob in check.obligations:
        if ob.result.status != 'sat': continue
        if ob.name.endswith('.definition'):
            xv = ob.result.model.get('R_x')
            cases.append((ob, xv))
        else:
            confirm_other(check, ob)
    confirm_definition(check, cases, table)
    return check.finish(rule='one obligation per (easing, law); x ranges over all reals in [0,1] (NRA) or is the exact f32 endpoint')


def frac_of(v):
    if isinstance(v, list):         # (/ a b) or (- x)
        if v[0] == '/': return frac_of(v[1]) / frac_of(v[2])
        if v[0] == '-': return -frac_of(v[1])
    return Fraction(str(v))


def bezier_true(ctrl, xv):
    x1, y1, x2, y2 = ctrl
    lo, hi = 0.0, 1.0
    X = lambda t: 3 * (1 - t) ** 2 * t * x1 + 3 * (1 - t) * t * t * x2 + t ** 3
    for _ in range(200):
        mid = (lo + hi) / 2
        if X(mid) < xv: lo = mid
        else: hi = mid
    t = (lo + hi) / 2
    return 3 * (1 - t) ** 2 * t * y1 + 3 * (1 - t) * t * t * y2 + t ** 3


def confirm_definition(check, cases, table):
    if not cases: return
    rc = []
    for ob, xv in cases:
        try: xf = float(frac_of(xv))
        except Exception: xf = 0.3125
        rc.append({'kind': 'ease', 'easing': ob.easing, 'x': '%08x' % f32bits(xf)})
    nat = run_replay(rc, 'dev')
    for (ob, xv), c, n in zip(cases, rc, nat):
        xf = bits2f32(int(c['x'], 16)); got = bits2f32(n['r']); want = bezier_true(table[ob.easing], xf)
        if abs(got - want) > 5e-4:
            check.report_violation(ob.name, ob.finding_key, f'{ob.easing}.calc({xf!r}) = {got!r} but the cubic-bezier timing function {table[ob.easing]} gives {want:.6f}: the curve is sampled at parameter t = x instead of solving X(t) = x', c)
        else:
            check.inconclusive.append(f'{ob.name}: solver witness x={xf} did not reproduce natively (got {got}, timing function {want})')


def confirm_other(check, ob):
    nm = ob.name.split('.')
    if ob.name == 'C13.custom-used-as-given':
        xv = ob.result.model.get('x')
        xs = [bits2f32(xv[1])] if isinstance(xv, tuple) else []
        cs = [{'kind': 'ease_custom', 'x': '%08x' % f32bits(v)} for v in xs + [0.0, 1.0, -0.5, 1.5, 0.25]]
        for c, n in zip(cs, run_replay(cs, 'dev')):
            if n['via_easing'] != n['direct']:
                check.report_violation(ob.name, None, f'Easing::Custom(c).calc({bits2f32(int(c["x"], 16))!r}) = {bits2f32(n["via_easing"])!r} but c.calc gives {bits2f32(n["direct"])!r} (c(x) = 0.25 + 0.5 x): a custom easing is not used as given', c)
                return
        check.inconclusive.append(f'{ob.name}: witness did not reproduce natively')
        return
    easing = nm[1] if len(nm) > 2 else None
    mv = ob.result.model
    if easing and easing != 'mirror':
        xv = mv.get('x') or mv.get('R_x')
        try:
            xf = bits2f32(xv[1]) if isinstance(xv, tuple) else float(frac_of(xv))
        except Exception:
            xf = 0.0
        n = run_replay([{'kind': 'ease', 'easing': easing, 'x': '%08x' % f32bits(xf)}], 'dev')[0]
        check.report_violation(ob.name, None, f'{ob.words} FAILS: {easing}.calc({xf!r}) = {bits2f32(n["r"])!r}', {'kind': 'ease', 'easing': easing, 'x': '%08x' % f32bits(xf)})
    else:
        # mirror identity broken: replay both members at the witness
        xv = mv.get('R_x'); xf = float(frac_of(xv)) if xv is not None else 0.25
        a, b = nm[2].split('-')
        b = a if b == 'self' else b
        cs = [{'kind': 'ease', 'easing': a, 'x': '%08x' % f32bits(1 - xf)}, {'kind': 'ease', 'easing': b, 'x': '%08x' % f32bits(xf)}]
        n = run_replay(cs, 'dev')
        va, vb = bits2f32(n[0]['r']), bits2f32(n[1]['r'])
        if abs(vb - (1 - va)) > 1e-5:
            check.report_violation(ob.name, None, f'{b}({xf}) = {vb} but 1 - {a}({1 - xf}) = {1 - va}', cs)
        else:
            check.inconclusive.append(f'{ob.name}: witness did not reproduce natively')


if __name__ == '__main__':
    sys.exit(main(sys.argv[1] if len(sys.argv) > 1 else 'quick'))
