"""C15 — timeline! produces exactly the timeline the builder API would (translation validation).

A generated family of sentences (checks/gen_macros.py) is compiled with the REAL macro; each is paired with builder code
produced independently from the documented reading.  The executor runs both MIR bodies; structurally identical timeline
values discharge the obligation (update and the metadata accessors are functions of the value), anything else goes to the
solver / native comparison.  The macro's numeric kernels (percent and millisecond scaling) are extracted from the MIR of
mina_macros and decided for ALL literal values by the solver."""
from structural import *
import gen_macros

MACROS = os.path.join(VERIF, 'subjects', 'macros1')


def load(tier):
    idx = gen_macros.generate(tier)
    prog, enums, keys = load_program(['mina_core'], MACROS)
    return idx, prog, enums, keys


def run_fn(m, prog, name):
    f = [x for x in prog.by_last.get(name, []) if x.crate == 'subjects']
    if len(f) != 1: raise RuntimeError(f'function {name} not found in the subjects MIR')
    rs = [r for r in m.explore(lambda mm: mm.call_fn(f[0], [])) if r.outcome != 'infeasible']
    if len(rs) != 1 or rs[0].outcome != 'ok':
        return None, [(r.outcome, r.msg) for r in rs][:2]
    return rs[0].value, None


def native(names):
    tdir = os.path.join(BUILD, 'macros-target')
    r = subprocess.run(['cargo', 'build', '--offline', '--target-dir', tdir, '--bin', 'macro_native'], cwd=crate_dir(MACROS), env=dict(ENV, RUSTFLAGS='-A warnings'), capture_output=True, text=True)
    if r.returncode != 0:
        log(r.stderr[-2000:]); raise RuntimeError('native build of the macro subjects failed')
    out = subprocess.run([os.path.join(tdir, 'debug', 'macro_native')] + names, capture_output=True, text=True, timeout=300).stdout
    return dict(l.split() for l in out.strip().split('\n') if l.strip())


def kernels(check, tier):
    """percent / millisecond scaling extracted from the MIR of mina_macros"""
    path, key = dump_mir('mina_macros')
    txt = open(path).read()
    check.info.setdefault('mir_source_hash', {})['mina_macros'] = key
    def body(fn):
        m = re.search(r'^fn [^\n]*' + fn + r'\(.*?^}', txt, re.S | re.M)
        return m.group(0) if m else ''
    found = {}
    for fn, what in (('builder_append_keyframe', 'percent'), ('seconds_(?:multiplier|divisor)', 'ms-factor'), ('builder_create_timeline', 'seconds')):
        b = body(fn)
        ops = re.findall(r'= (Mul|Div)\((?:move|copy) _\d+, (?:const ([-\d.e+]+)f32|(?:move|copy) _\d+)\)', b)
        consts = re.findall(r'const ([-\d.e+]+)f32', b)
        found[fn] = dict(ops=ops, consts=consts)
    check.info['macro_kernels'] = found
    from mirsym.machine import f32_from_decimal
    to = 60
    # percent: emitted position for an integer literal N in 0..=100 must be the correctly rounded N/100
    pk = found['builder_append_keyframe']
    n = z3.BitVec('pct', 8); nf = z3.fpUnsignedToFP(RNE, n, F32)
    pop = [o for o in pk['ops'] if o[1]]
    if len(pop) != 1:
        check.inconclusive.append(f'percent kernel not recognised in builder_append_keyframe: {pk}')
    else:
        op, c = pop[0]; cv = fpv32(f32_from_decimal(c))
        emitted = z3.fpMul(RNE, nf, cv) if op == 'Mul' else z3.fpDiv(RNE, nf, cv)
        o = check.add(Obligation('C15.kernel-percent', [z3.ULE(n, 100), z3.Not(z3.fpEQ(emitted, z3.fpDiv(RNE, nf, fpv32(100.0))))], [n], timeout=to,
                                 words=f'for every integer N in 0..=100 the emitted keyframe position ({op} by {c}) is N/100 correctly rounded'))
        o.kind = 'percent'
    # milliseconds: emitted seconds for a literal value v with suffix ms must be v/1000 correctly rounded (v any f32 in [0, 10^7])
    sm = found['seconds_(?:multiplier|divisor)']; ct = found['builder_create_timeline']
    ms_consts = [c for c in sm['consts'] if abs(float(c) - 1.0) > 1e-9]
    ops = {o[0] for o in ct['ops']}
    v = z3.FP('msval', F32)
    if len(ms_consts) != 1 or len(ops) != 1:
        check.inconclusive.append(f'millisecond kernel not recognised: {sm} {ct}')
    else:
        op = ops.pop(); cv = fpv32(f32_from_decimal(ms_consts[0]))
        emitted = z3.fpMul(RNE, v, cv) if op == 'Mul' else z3.fpDiv(RNE, v, cv)
        k = z3.BitVec('msint', 24)
        o = check.add(Obligation('C15.kernel-milliseconds', [v == z3.fpUnsignedToFP(RNE, k, F32), z3.Not(z3.fpEQ(emitted, z3.fpDiv(RNE, v, fpv32(1000.0))))], [k], timeout=to,
                                 words=f'for every integer millisecond literal below 2^24 the emitted seconds ({op} by {ms_consts[0]}) are v/1000 correctly rounded'))
        o.kind = 'ms'
        o2 = check.add(Obligation('C15.kernel-seconds', [fin(v), z3.Not(z3.fpEQ(z3.fpMul(RNE, v, fpv32(1.0)) if op == 'Mul' else z3.fpDiv(RNE, v, fpv32(1.0)), v))], [v], timeout=to,
                                  words='a literal with suffix s is taken as is'))


def main(tier):
    check = Check('C15', tier, 'translation_validation')
    idx, prog, enums, keys = load(tier)
    check.info['mir_source_hash'] = dict(keys)
    m = machine_for(prog, enums, uf_lerp=False, uf_ease=False)
    m.enum_map_len = 4
    bad = []
    nprog = 0
    for kind, pre in (('timeline', 't'), ('merged', 'g')):
        for e in idx[kind]:
            nprog += 1
            a, ea = run_fn(m, prog, f'{pre}_m{e["i"]}'); b, eb = run_fn(m, prog, f'{pre}_b{e["i"]}')
            if a is None or b is None:
                check.inconclusive.append(f'{pre}{e["i"]} {e["macro"]}: {ea or eb}'); continue
            ob = Obligation(f'C15.{pre}{e["i"]}', [], words=f'{e["macro"]}  ==  builder chain ({e.get("builder", "merged list of builder chains")[:160]})')
            class R: pass
            r = R(); r.secs = 0.0; r.solver = 'structural-identity'; r.model = {}; r.detail = ''
            if struct_eq(m, m.alloc(a), m.alloc(b)):
                r.status = 'unsat'
            else:
                r.status = 'sat'; bad.append((f'{pre}{e["i"]}', e, a, b))
            ob.result = r
            check.obligations.append(ob)
    check.note_machine(m)
    check.inconclusive = check.inconclusive[:10]
    check.programs = 2 * nprog
    kernels(check, tier)
    check.run()
    # confirm natively (Debug output of the timelines and update at 41 times through the public API)
    if bad:
        nat = native([n for n, *_ in bad])
        for name, e, a, b in bad[:60]:
            if nat.get(name) == 'false':
                if len(check.violations) < 3:
                    check.report_violation(name, None, f'{e["macro"]} differs from the documented builder reading {e.get("builder", "")[:200]}', {'kind': 'macro_native', 'item': name, 'bin': 'macro_native'})
            else:
                check.inconclusive.append(f'{name}: structurally different values that behave identically natively ({e["macro"]})')
        if check.violations:
            check.inconclusive = [x for x in check.inconclusive if 'behave identically' not in x]
    for ob in check.obligations:
        if getattr(ob, 'kind', None) and ob.result.status == 'sat':
            mv = ob.result.model
            if ob.kind == 'percent':
                n = mv.get('pct'); n = n[1] if isinstance(n, tuple) else n
                import numpy as np
                check.report_violation(ob.name, 'C15:kernel:percent', f'{n}% is emitted as {float(np.float32(n) * np.float32(0.01))!r}, not {float(np.float32(n) / np.float32(100))!r} (N/100 correctly rounded)', {'kind': 'macro_kernel', 'percent': n})
            else:
                k = mv.get('msint'); k = k[1] if isinstance(k, tuple) else k
                import numpy as np
                check.report_violation(ob.name, 'C15:kernel:ms', f'{k}ms is emitted as {float(np.float32(k) * np.float32(0.001))!r} s, not {float(np.float32(k) / np.float32(1000))!r}', {'kind': 'macro_kernel', 'ms': k})
    check.assumptions += ['the quantifier "all sentences of the grammar" is covered by a generated finite family (argument kinds present/absent, literal forms, every integer percentage, argument orders, merged lists): stated bound',
                          '"ill-formed sentences are rejected at compile time" needs the compiler as oracle and is NOT claimed',
                          'structurally identical timeline values behave identically (update and the accessors are deterministic functions of the value: C09)']
    check.samples = [o.words for o in check.obligations[:4]] + [o.words for o in check.obligations[-3:]]
    return check.finish(rule='one obligation per generated sentence (macro-built value vs builder-built value) + 3 kernel obligations over all literal values',
                        extra_cov={'programs': 2 * nprog, 'disagreements_checked': len(bad)})


if __name__ == '__main__':
    sys.exit(main(sys.argv[1] if len(sys.argv) > 1 else 'quick'))
