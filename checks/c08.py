"""C08 — properties a timeline does not animate are never touched."""
from sprops_main import *


def confirm(check, r):
    mv = next((x for x in r['sat'] if x), None)
    if not mv: return False
    shape = r['shape']
    case = base_case(shape, mv, 'timeline_eval'); case['strict'] = False
    if len(shape) > 5 and shape[5] == 2: case['via_from'] = True
    nat = run_replay([case], 'dev', 'replay_tl')[0]
    if nat.get('mismatch') and ('modified' in nat.get('detail', '') or 'untouched' in nat.get('detail', '')):
        check.report_violation(f'{shape[0]}_N{shape[1]}', None, f'shape {shape}: {nat["detail"]}', case); return True
    check.inconclusive.append(f'C08 counterexample for {shape} did not reproduce natively: {nat}')
    return False


def main(tier):
    check, results, words, rule = generic_main('C08', tier, shapes_c08(tier), run_c08, confirm,
        'after update (any phase: not started / active / repeating / reversing / ended): every property without a keyframe, every field excluded by #[animate], and with no keyframes the whole target, still hold their prior (symbolic) contents',
        'one obligation per (shape, execution path); shapes: S1/S2/S3 x N<=2 (thorough 3) keyframes x every presence pattern that leaves something un-animated x start override x merged/single',
        ['positions in [0,1]; valid timing; time scale abstracted by L-pos (all three phases explored)', 'animator level: values are only ever modified through Timeline::update (C04/C05 encodings), so un-animated properties keep what earlier states left'])
    return finish_shapes(check, results, rule, words)


if __name__ == '__main__':
    sys.exit(main(sys.argv[1] if len(sys.argv) > 1 else 'quick'))
