"""C18 — Bevy Animator: time is conserved and the target lands on the final values.

One-frame inductive step of the REAL `animate::<T>` system MIR from an arbitrary Animator (enabled flag, position, state,
timeline present or not: symbolic / enumerated) with a symbolic frame delta, over the ECS call-level model of bevy_model.py,
plus bounded multi-frame runs (<= 3 frames) from a fresh Animator."""
from bevy_model import *
import itertools

S_AS = z3.Function('DUR_AS_F32', z3.BitVecSort(128), F32)


def load():
    prog, enums, keys = load_program(['mina_core', 'bevy_mina'])
    return prog, enums, keys


def run_frame(m, ecs, animate, world, delta):
    """one execution of the animate system"""
    world.delta = delta; world.events = []
    q_anim = Opaque('query', spec=['Entity', 'Animator'], modes=['val', 'mut'], changed=None)
    q_tgt = Opaque('query', spec=['T'], modes=['mut'], changed=None)
    m.call_fn(animate, [Agg('Res', []), q_anim, q_tgt, Opaque('eventwriter')])
    return list(world.events)


def step_obligations(tier):
    """(has_timeline, has_target, other entity iterated first: None | 'no_timeline' | 'with_timeline')"""
    return [(True, True, None), (False, True, None), (True, False, None), (True, True, 'no_timeline'), (True, True, 'with_timeline')]


def main(tier):
    check = Check('C18', tier, 'model_checking')
    prog, enums, keys = load()
    check.info['mir_source_hash'] = keys
    animate = [f for f in prog.by_last['animate'] if f.crate == 'bevy_mina'][0]
    tls = AbsTimelines()
    TERM = z3.Function('BTL_TERM_0', F32, F32)
    results = []
    for has_tl, has_tgt, other in step_obligations(tier):
        world = World()
        ecs = Ecs(prog, enums, world, tls)
        m = Machine(prog, enums, overrides=ecs.overrides())
        m.duration_mode = 'uf'
        enabled = z3.Bool('enabled'); pos = z3.BitVec('pos_nanos', 128); st = z3.BitVec('state', 64); delta = z3.BitVec('delta_nanos', 128)
        x0 = z3.FP('target_x', F32)
        dur, dly = tls.dur(0), tls.delay(0)

        def h(m):
            world.entities = []; tls.fapps = []
            m.assume(z3.And(z3.ULE(st, 3), z3.ULE(pos, z3.BitVecVal(DUR_MAX, 128)), z3.ULE(delta, z3.BitVecVal(2 ** 64, 128))))
            for c in tls.valid(0): m.assume(c)
            if other:
                # an unrelated animator on another entity, iterated first: arbitrary enabled flag / state / position; what it does must
                # not affect the judged animator (e.g. a disabled or timeline-less animator must not end the system's run)
                o_en = z3.Bool('other_enabled'); o_pos = z3.BitVec('other_pos', 128); o_st = z3.BitVec('other_state', 64)
                m.assume(z3.And(z3.ULE(o_st, 3), z3.ULE(o_pos, z3.BitVecVal(1 << 70, 128))))
                if other == 'with_timeline':
                    for c in tls.valid(5): m.assume(c)
                oe = world.add({'Animator': animator_val(o_en, o_pos, tls.tl(5) if other == 'with_timeline' else None, o_st), 'T': Agg('T', [Sc('f32', z3.FP('other_x', F32))])})
                oe['changed'] = set()
            comps = {'Animator': animator_val(enabled, pos, tls.tl(0) if has_tl else None, st)}
            if has_tgt: comps['T'] = Agg('T', [Sc('f32', x0)])
            ent = world.add(comps); ent['changed'] = set()
            ev = run_frame(m, ecs, animate, world, delta)
            ev = [e for e in ev if entity_id(m, e.f[0]) == ent['id']]
            a = ent['comps']['Animator'].v
            return dict(anim=clone(a), target=(clone(ent['comps']['T'].v) if has_tgt else None), events=ev, changed=set(ent['changed']))

        rs = m.explore(h)
        check.note_machine(m)
        t_old = S_AS(pos)
        for r in rs:
            if r.outcome == 'infeasible': continue
            if r.outcome == 'panic':
                continue          # Duration overflow of position + delta: C20 territory (position near u64::MAX seconds)
            if r.outcome != 'ok':
                check.inconclusive.append(f'animate step: {r.outcome} {r.msg}'); continue
            o = r.value
            a = o['anim']
            new_enabled = a.f[0].t; new_pos = a.f[1].f[0].t
            ns = a.f[3].d if not isinstance(a.f[3].d, int) else z3.BitVecVal(a.f[3].d, 64)
            new_x = o['target'].f[0].t if has_tgt else None
            evs = o['events']
            ax = []
            for val, v, t, k in tls.fapps:
                if k != 0: continue
                ax.append(z3.Implies(z3.fpGEQ(t, dur), val == TERM(v)))          # L-tl: at/after the total duration the timeline rests at its terminal value
            ax.append(z3.And(z3.Not(z3.fpIsNaN(t_old)), z3.fpGEQ(t_old, ZERO), z3.Not(z3.fpIsInf(t_old))))
            # invariant of reachable pre-states (inductive hypothesis): Ended => position reached a finite duration, and the target rests
            inv = [z3.Implies(st == 3, z3.And(z3.fpGEQ(t_old, dur), z3.Not(z3.fpIsInf(dur))))] if has_tl else []
            if has_tl and has_tgt: inv.append(z3.Implies(st == 3, x0 == TERM(tls.tl(0).f[1].t)))
            claims = {}
            nev = len(evs)
            ev_state = None
            if nev:
                e0 = evs[0]; ev_state = e0.f[1].d if not isinstance(e0.f[1].d, int) else z3.BitVecVal(e0.f[1].d, 64)
            # --- disabled: nothing changes
            same_all = z3.And(ns == st, new_pos == pos, new_enabled == enabled, (new_x == x0) if has_tgt else z3.BoolVal(True))
            claims['disabled-changes-nothing'] = z3.Implies(z3.Not(enabled), z3.And(same_all, z3.BoolVal(nev == 0)))
            if has_tl:
                claims['position-grows-by-delta-while-waiting-or-playing'] = z3.Implies(z3.And(enabled, z3.Or(ns == 1, ns == 2)), new_pos == pos + delta)
                claims['position-stops-once-ended'] = z3.Implies(z3.And(enabled, ns == 3), new_pos == pos)
                claims['state-only-moves-forward'] = z3.Implies(enabled, z3.UGE(ns, st))
                claims['waiting-only-before-delay'] = z3.Implies(z3.And(enabled, ns == 1), z3.fpLT(t_old, dly))
                claims['never-ended-when-infinite'] = z3.Implies(z3.And(enabled, z3.fpIsInf(dur)), ns != 3)
                claims['ended-not-before-duration'] = z3.Implies(z3.And(enabled, ns == 3, st != 3), z3.fpGEQ(t_old, dur))
                claims['ended-at-most-one-frame-late'] = z3.Implies(z3.And(enabled, z3.fpGEQ(t_old, dur)), ns == 3)
                if has_tgt:
                    claims['ended-implies-terminal-values'] = z3.Implies(z3.And(enabled, ns == 3), new_x == TERM(tls.tl(0).f[1].t))
                    claims['playing-shows-timeline-at-frame-old-position'] = z3.Implies(z3.And(enabled, st == 2), new_x == tls.Fk(0)(tls.tl(0).f[1].t, t_old))
            else:
                claims['no-timeline-state-none'] = z3.Implies(enabled, z3.And(ns == 0, new_pos == pos, (new_x == x0) if has_tgt else z3.BoolVal(True)))
            # events: exactly one per state change, carrying the end-of-frame state
            if nev == 0:
                claims['event-iff-state-change'] = z3.Implies(enabled, ns == st)
            elif nev == 1:
                claims['event-iff-state-change'] = z3.And(ns != st, ev_state == ns)
            else:
                claims['event-iff-state-change'] = z3.BoolVal(False)
            for name, cl in claims.items():
                ob = check.add(Obligation(f'C18.step[{"tl" if has_tl else "no-tl"},{"target" if has_tgt else "no-target"}{",after-another-animator(" + other + ")" if other else ""}].{name}', [], [], words=name.replace('-', ' ') + ' (one frame of animate from an arbitrary Animator state, symbolic delta' + ('; another entity with an arbitrary animator is iterated first' if other else '') + ')'))
                s = z3.Solver(); s.set('timeout', 30000)
                s.add(*r.pc); s.add(*ax); s.add(*inv); s.add(z3.Not(cl))
                t0 = time.time(); c = s.check()
                class R: pass
                rr = R(); rr.secs = time.time() - t0; rr.solver = 'z3'; rr.detail = ''; rr.model = {}
                rr.status = 'unsat' if c == z3.unsat else ('sat' if c == z3.sat else 'unknown')
                if c == z3.sat:
                    mdl = s.model()
                    rr.model = dict(other=other, other_enabled=(z3.is_true(mdl.eval(z3.Bool('other_enabled'), model_completion=True)) if other else None),
                                    other_state=(mdl.eval(z3.BitVec('other_state', 64), model_completion=True).as_long() if other else None),
                                    state=mdl.eval(st, model_completion=True).as_long(), enabled=z3.is_true(mdl.eval(enabled, model_completion=True)),
                                    new_state=mdl.eval(ns, model_completion=True).as_long(), has_tl=has_tl, has_tgt=has_tgt, claim=name,
                                    pos=fpnum(mdl.eval(t_old, model_completion=True)), delta=mdl.eval(delta, model_completion=True).as_long() / 1e9,
                                    delay=fpnum(mdl.eval(dly, model_completion=True)), dur=fpnum(mdl.eval(dur, model_completion=True)),
                                    x0=fpnum(mdl.eval(x0, model_completion=True)))
                ob.result = rr
                ob.claim = name
        check.states += len(rs)
    schedule_obligations(check, prog, enums)
    # merge duplicates (the same claim on several paths): report per claim
    sat_claims = {}
    for ob in check.obligations:
        if ob.result.status == 'sat': sat_claims.setdefault((ob.claim, (ob.result.model or {}).get('other')), ob)
    for claim, ob in sat_claims.items():
        if getattr(ob, 'schedule', False): continue
        confirm(check, ob)
    check.transitions = len(check.obligations)
    check.assumptions += ['ECS contract modelled at call level (bevy_model.py): Query iteration / get_mut, Mut deref(_mut), Res<Time>::delta, EventWriter::send; counterexamples are replayed on a real bevy App',
                          'the boxed timeline is abstract (L-tl): update writes F(start, t); at or after duration() it rests at its terminal value; delay() <= duration()',
                          'inductive hypothesis on the pre-state: Ended => position reached a finite duration and the target rests at the terminal value',
                          'Duration::as_secs_f32 uninterpreted (finite, >= 0); frames whose position + delta overflows Duration panic and are not judged here']
    check.samples = [o.words for o in check.obligations[:8]]
    return check.finish(rule='one obligation per (pre-state shape, execution path of animate, clause of the property)')


def schedule_obligations(check, prog, enums):
    """animate::<T> is registered exactly once, in Update, and runs unconditionally (see bevy_schedule.py)"""
    import bevy_schedule as bs
    class R: pass
    def result(status, secs=0.0, model=None):
        rr = R(); rr.secs = secs; rr.solver = 'z3'; rr.detail = ''; rr.model = model or {}; rr.status = status; return rr
    recs, calls, problems, m = bs.read_schedule(prog, enums, 'build')
    check.note_machine(m)
    for p in problems: check.inconclusive.append('schedule: ' + p)
    mine = [(label, cfg) for label, cfg in recs if 'animate' in cfg.systems]
    check.info['schedule'] = [dict(label=l, systems=c.systems, before=c.before, after=c.after, conditions=[bs.text_of(x)[:80] for x in c.conditions], other=c.other) for l, c in recs]
    ob = check.add(Obligation('C18.schedule.animate-registered-once-in-Update', [], [], words='AnimationPlugin::build registers animate::<T> exactly once, in the Update schedule (read from the symbolic execution of the real build MIR)'))
    ok = len(mine) == 1 and mine[0][0].replace(' ', '').endswith('bevy::app::Update') and any(c.endswith('add_event') for c in calls)
    ob.result = result('unsat' if ok else 'sat'); ob.claim = 'schedule'; ob.schedule = True
    base_model = dict(state=2, enabled=True, new_state=2, has_tl=True, has_tgt=True, claim='ended-at-most-one-frame-late', pos=3.0, delta=0.25, delay=1.0, dur=3.0, x0=7.0)
    if not ok and not problems:
        replay_schedule(check, ob, base_model, {}, f'animate::<T> is registered {len(mine)} time(s) in {[l for l, _ in mine]}')
    # every execution path of build (what the App already contains is arbitrary) must register the system
    for i, (pc, precs, pcalls) in enumerate(getattr(m, 'schedule_paths', [])[1:], 1):
        pm = [(l, c) for l, c in precs if 'animate' in c.systems]
        ob2 = check.add(Obligation(f'C18.schedule.animate-registered-once-in-Update.path{i}', [], [], words='every execution path of AnimationPlugin::build (whatever the App already contains, e.g. resources added by another AnimationPlugin<U>) registers animate::<T> exactly once in Update'))
        ok2 = len(pm) == 1 and pm[0][0].replace(' ', '').endswith('bevy::app::Update')
        s_ = z3.Solver(); s_.add(*pc); feasible = s_.check() == z3.sat
        wit = {}
        if feasible:
            mdl = s_.model(); wit = {k: z3.is_true(mdl.eval(v, model_completion=True)) for k, v in getattr(m, 'schedule_fresh', {}).items()}
        ob2.result = result('unsat' if (ok2 or not feasible) else 'sat', model=wit); ob2.claim = 'schedule'; ob2.schedule = True
        if not ok2 and feasible:
            try:
                nat = run_replay([{'kind': 'bevy_two_plugins'}], 'dev', 'replay_bevy', timeout=900)[0]
                check.traces_validated += 1
                if nat.get('violated'):
                    check.report_violation(ob2.name, None, f'on the path of AnimationPlugin::build taken when {wit}, animate::<T> is registered {len(pm)} time(s); on a real App with AnimationPlugin::<V> and AnimationPlugin::<W>: {nat.get("detail")}', {'kind': 'bevy_two_plugins'})
                else:
                    check.inconclusive.append(f'{ob2.name}: a build path that does not register animate::<T> ({wit}) was not reproduced by the two-plugin App: {nat}')
            except Exception as e:
                check.inconclusive.append(f'{ob2.name}: bevy replay unavailable ({e})')
    for label, cfg in mine:
        for cond in cfg.conditions:
            res, problems = bs.condition_can_be_false(prog, enums, cond)
            for p in problems: check.inconclusive.append('schedule: ' + p)
            if res is None: continue
            paths, fresh, cname, cm = res
            check.note_machine(cm)
            for i, (pc, ret) in enumerate(paths):
                ob = check.add(Obligation(f'C18.schedule.run-condition[{cname}].path{i}.always-true', [], [], words=f'the run condition `{cname}` attached to animate::<T> holds for every state of the resources it reads (a frame in which it is false is a frame in which the animator neither advances nor changes state)'))
                s_ = z3.Solver(); s_.set('timeout', 30000); s_.add(*pc); s_.add(z3.Not(ret))
                t0 = time.time(); c = s_.check()
                ob.claim = 'schedule'; ob.schedule = True
                if c == z3.unsat: ob.result = result('unsat', time.time() - t0); continue
                if c != z3.sat: ob.result = result('unknown', time.time() - t0); continue
                mdl = s_.model()
                wit = {k: (z3.is_true(mdl.eval(v, model_completion=True)) if z3.is_bool(v) else mdl.eval(v, model_completion=True).as_long()) for k, v in fresh.items()}
                ob.result = result('sat', time.time() - t0, dict(wit))
                replay_schedule(check, ob, base_model, wit, f'run condition `{cname}` is false for resource state {wit}')


def replay_schedule(check, ob, mv, wit, what):
    """a frame in which animate does not run, on a real App: the resource state of the witness, pre-states in which a transition is due"""
    extra = {}
    if wit.get('is_paused') or wit.get('paused'): extra['paused'] = True
    if 'delta' in wit: extra['delta'] = wit['delta'] / 1e9
    try:
        cases = []
        for st, pos in ((2, 3.0), (2, 5.0), (1, 1.5), (0, 0.0), (2, 1.5)):
            cases.append(dict(kind='bevy_step', pre_state=st, enabled=True, has_tl=True, has_tgt=True, pos=pos, delta=extra.get('delta', 0.25), delay=1.0, dur=3.0, x0=7.0, **{k: v for k, v in extra.items() if k != 'delta'}))
        nats = run_replay(cases, 'dev', 'replay_bevy', timeout=900)
        check.traces_validated += len(nats)
        for case, nat in zip(cases, nats):
            if nat.get('violated'):
                check.report_violation(ob.name, None, f'{what}; on a real App: {nat.get("claims")}: {nat.get("detail")}', case)
                return
        check.inconclusive.append(f'{ob.name}: {what}, but no clause of the property failed on the real App for the tried pre-states')
    except Exception as e:
        check.inconclusive.append(f'{ob.name}: bevy step replay unavailable ({e})')


def fpnum(v):
    """python float (or 'inf') of a z3 FP numeral"""
    try:
        if v.isInf(): return 'inf' if not v.isNegative() else '-inf'
        if v.isNaN(): return 'nan'
        import fractions
        return float(fractions.Fraction(v.significand_as_long(), 2 ** (v.sbits() - 1)) * fractions.Fraction(2) ** v.exponent_as_long(biased=False)) * (-1 if v.isNegative() else 1) if not v.isZero() else 0.0
    except Exception:
        return 0.0


def step_cases(mv):
    """the solver's own pre-state on a real App (replay_bevy bevy_step), then nearby pre-states of the same shape"""
    def ok(x, d): return x if isinstance(x, float) and x == x and abs(x) < 1e15 else d
    dur = mv['dur'] if mv['dur'] == 'inf' else ok(mv['dur'], 3.0)
    delay = ok(mv['delay'], 1.0); pos = ok(mv['pos'], 0.0); delta = min(ok(mv['delta'], 0.25), 1e9); x0 = ok(mv['x0'], 7.0)
    if abs(x0) > 1e6 or x0 in (10.0, 20.0): x0 = 7.0
    base = dict(kind='bevy_step', pre_state=mv['state'], enabled=mv['enabled'], has_tl=mv['has_tl'], has_tgt=mv['has_tgt'])
    if mv.get('other'):
        base['other'] = mv['other']; base['other_enabled'] = bool(mv.get('other_enabled'))
    out = [dict(base, pos=pos, delta=delta, delay=delay, dur=dur, x0=x0)]
    for dl, du in ((1.0, 3.0), (0.0, 2.0), (1.0, 'inf')):
        for p in (0.0, 0.5, 1.0, 2.0, 3.0, 5.0):
            for d in (0.0, 0.25, 10.0):
                out.append(dict(base, pos=p, delta=d, delay=dl, dur=du, x0=7.0))
    return out


def confirm(check, ob):
    mv = ob.result.model
    try:
        cases = step_cases(mv)
        nats = run_replay(cases, 'dev', 'replay_bevy', timeout=900)
        check.traces_validated += len(nats)
        for case, nat in zip(cases, nats):
            if nat.get('violated') and mv['claim'] in nat.get('claims', '').split(','):
                check.report_violation(ob.name, 'C18:' + mv['claim'], f'{mv["claim"]}: {nat.get("detail")}', case)
                return
    except Exception as e:
        check.inconclusive.append(f'{ob.name}: bevy step replay unavailable ({e})'); return
    # native: real bevy App with a hand-driven clock; the scenario is picked by the violated clause
    case = {'kind': 'bevy_animator', 'claim': mv['claim'], 'pre_state': mv['state'], 'has_tl': mv['has_tl'], 'has_tgt': mv['has_tgt']}
    try:
        nat = run_replay([case], 'dev', 'replay_bevy', timeout=600)[0]
    except Exception as e:
        check.inconclusive.append(f'{ob.name}: bevy replay unavailable ({e})'); return
    if nat.get('violated'):
        check.report_violation(ob.name, 'C18:' + mv['claim'], f'{mv["claim"]}: {nat.get("detail")}', case)
    else:
        check.inconclusive.append(f'{ob.name}: solver counterexample {mv} did not reproduce on the real bevy App: {nat}')


if __name__ == '__main__':
    sys.exit(main(sys.argv[1] if len(sys.argv) > 1 else 'quick'))
