"""C02, C08, C09, C10: further properties of the real builder / derive(Animate) / SubTimeline code, decided on the same
symbolic shapes as C01 (see c01.py).  One worker function per property."""
from structural import *
import structural
import c01

DEFAULTS = c01.DEFAULTS


def setup(shape, abstract=True):
    prog, enums = structural._G['prog'], structural._G['enums']
    subject, N, pres, eas, ov = shape[:5]
    api = Api(prog, subject)
    ap = AbstractPosition()
    m = machine_for(prog, enums, abstract_pos=ap)
    pos = [z3.FP(f'p{i}', F32) for i in range(N)]
    vals = [[z3.Const(f'v{i}_{n}', sort_of(ty)) for n, ty in api.fields] for i in range(N)]
    ovv = [z3.Const(f'ov_{n}', sort_of(ty)) for n, ty in api.target_fields]
    return api, ap, m, pos, vals, ovv


def assume_positions(m, pos, strict=False):
    for i in range(len(pos)):
        m.assume(z3.And(z3.fpGEQ(pos[i], ZERO), z3.fpLEQ(pos[i], ONE), z3.Not(z3.fpIsNegative(pos[i]))))
        if i: m.assume(z3.fpLT(pos[i - 1], pos[i]) if strict else z3.fpLEQ(pos[i - 1], pos[i]))


def mk_kfs(api, shape, pos, vals, builtin=False):
    subject, N, pres, eas, ov = shape[:5]
    return [{'pos': pos[i], 'vals': {n: (vals[i][k] if pres[i][k] else None) for k, (n, ty) in enumerate(api.fields)},
             'easing': tag_easing(i + 1) if eas[i] else None} for i in range(N)]


def ov_source(api, subject, ovv):
    return Agg(subject, [Sc(ty, v) for (n, ty), v in zip(api.target_fields, ovv)])


# =========================================================================================== C08
def shapes_c08(tier):
    out = []
    for subject in ('S2', 'S3', 'S1'):
        nf = len(SUBJECT_FIELDS[subject])
        for N in (0, 1, 2) if tier == 'quick' else (0, 1, 2, 3):
            for pres in itertools.product((0, 1), repeat=nf * N):
                pm = tuple(tuple(pres[nf * i:nf * i + nf]) for i in range(N))
                # at least one property without any keyframe, or an excluded field (S3), or no keyframes at all
                cols = [any(pm[i][k] for i in range(N)) for k in range(nf)]
                if all(cols) and subject != 'S3': continue
                if N == 3 and subject != 'S2': continue
                for ov in (0, 1):
                    for merged in ((0, 1) if N in (1, 2) and subject == 'S2' else (0,)):
                        out.append((subject, N, pm, tuple(1 if i == 0 else 0 for i in range(N)), ov, merged))
    # keyframes that copy whole values (Animate::keyframe_from): the excluded field of S3 must still be left alone
    for N in (1, 2):
        for ov in (0, 1):
            out.append(('S3', N, tuple((1, 1) for _ in range(N)), tuple(0 for _ in range(N)), ov, 2))
    return out


def run_c08(shape):
    subject, N, pres, eas, ov, merged = shape
    api, ap, m, pos, vals, ovv = setup(shape)
    tm = Timing(); time_v = z3.FP('time', F32)
    nf = len(api.fields)

    def h(m):
        assume_positions(m, pos)
        m.assume(tm.valid())
        kfs = mk_kfs(api, shape, pos, vals)
        if merged == 2:
            # every keyframe is produced by the real keyframe_from(&values, position)
            cfg = m.call_fn(api.timeline, [])
            cfg = m.call_fn(api.cfg['duration_seconds'], [cfg, Sc('f32', tm.dur)]); cfg = m.call_fn(api.cfg['delay_seconds'], [cfg, Sc('f32', tm.delay)])
            cfg = m.call_fn(api.cfg['repeat'], [cfg, tm.repeat_val()]); cfg = m.call_fn(api.cfg['reverse'], [cfg, Sc('bool', tm.reverse)])
            for i in range(N):
                src = Agg(subject, [Sc(ty, z3.Const(f'kfsrc{i}_{n}', sort_of(ty))) for n, ty in api.target_fields])
                kb = m.call_fn(api.keyframe_from, [m.alloc(src), Sc('f32', pos[i])])
                cfg = m.call_fn(api.cfg['keyframe'], [cfg, kb])
            tl = m.call_fn(api.build, [cfg])
        else:
            tl = build_timeline(m, api, kfs, tm, tag_easing(0), memo_key='t')
        if merged == 1:
            # a second component that animates nothing the first one leaves alone: same keyframes, other timing
            tm2 = Timing('_2'); m.assume(tm2.valid())
            tl2 = build_timeline(m, api, kfs, tm2, tag_easing(0), memo_key='t2')
            of = [f for f in structural._G['prog'].by_last['of'] if f.impl_self == 'MergedTimeline'][0]
            tl = m.call_fn(of, [Agg('[]', [tl, tl2])])
            upd = [f for f in structural._G['prog'].by_last['update'] if f.impl_self == 'MergedTimeline'][0]
            sw = [f for f in structural._G['prog'].by_last['start_with'] if f.impl_self == 'MergedTimeline'][0]
        else:
            upd, sw = api.update, api.start_with
        tref = m.alloc(tl)
        if ov:
            m.call_fn(sw, [tref, m.alloc(ov_source(api, subject, ovv))])
        tgt, s0 = mk_target(api, 's0')
        gref = m.alloc(tgt)
        m.call_fn(upd, [tref, gref, Sc('f32', time_v)])
        return (m.load(gref), s0)

    rs = m.explore(h)
    res = new_result(shape)
    for r in rs:
        if r.outcome == 'infeasible': continue
        if r.outcome != 'ok':
            res['problems'].append(f'{r.outcome}: {r.msg}'); continue
        tgt, s0 = r.value
        bad = []
        animated = {n for n, _ in api.fields}
        for j, (n, ty) in enumerate(api.target_fields):
            k = [x for x, _ in api.fields].index(n) if n in animated else None
            if k is None or not any(pres[i][k] for i in range(N)):
                bad.append(tgt.f[j].t != s0[j].t)
        res['obligations'] += 1
        if not bad:
            res['discharged'] += 1; continue
        # syntactic fast path: the untouched fields still hold the very same term
        if all(z3.is_false(z3.simplify(b)) for b in bad):
            res['discharged'] += 1
        else:
            st, model = decide(list(r.pc) + [z3.Or(bad)])
            if st == 'unsat': res['discharged'] += 1
            elif st == 'sat':
                record_sat(res, r.pc, z3.Or(bad), diverse_values(vals, api.fields, [(v, ty) for v, (n, ty) in zip(ovv, api.target_fields)]) + nice_positions(pos, ap.p),
                           pos + [x for row in vals for x in row] + ovv + [ap.p, ap.tag, ap.rep, ap.rev] + [x.t for x in s0], model)
            else: res['problems'].append('solver unknown')
        if res['sample'] is None:
            res['sample'] = 'target after update: ' + ', '.join(f'{n}={str(tgt.f[j].t)[:60]}' for j, (n, ty) in enumerate(api.target_fields))
    return close_result(res, m, rs)


# =========================================================================================== C09
def shapes_c09(tier):
    out = []
    for subject, nf in (('S1', 1), ('S2', 2)):
        for N in ((1, 2) if tier == 'quick' else (1, 2, 3)):
            for pres in itertools.product((0, 1), repeat=nf * N):
                pm = tuple(tuple(pres[nf * i:nf * i + nf]) for i in range(N))
                if not any(any(r) for r in pm): continue
                out.append((subject, N, pm, tuple(1 if i == N - 1 else 0 for i in range(N)), 1))
                if subject == 'S2' and N <= 2:
                    out.append((subject, N, pm, tuple(1 if i == N - 1 else 0 for i in range(N)), 1, 1))      # as a component pair of a MergedTimeline
    return out


def judge_c09(shape, api, ap, m, pos, vals, ovv2, rs, N, pres, extra_vars):
    res = new_result(shape)
    for r in rs:
        if r.outcome == 'infeasible': continue
        if r.outcome != 'ok':
            res['problems'].append(f'{r.outcome}: {r.msg}'); continue
        v = r.value
        res['obligations'] += 1
        fails = [k for k in ('q1', 'q3', 'q4') if not v[k]]
        bad = []
        for j, (n, ty) in enumerate(api.target_fields):
            k = [x for x, _ in api.fields].index(n) if n in {a for a, _ in api.fields} else None
            animated = k is not None and any(pres[i][k] for i in range(N))
            if animated:
                bad.append(v['a'].f[j].t != v['b'].f[j].t)          # independent of prior contents
            bad.append(v['a'].f[j].t != v['a2'].f[j].t)             # idempotent
        for x, y in zip(v['meta0'], v['meta1']):
            if not struct_eq(m, x, y): fails.append('metadata changed by start_with')
        if fails:
            res['sat'].append(dict(kind='structural', fails=fails)); continue
        if all(z3.is_false(z3.simplify(b)) for b in bad):
            res['discharged'] += 1
        else:
            st, model = decide(list(r.pc) + [z3.Or(bad)])
            if st == 'unsat': res['discharged'] += 1
            elif st == 'sat':
                # natively checkable witness: keyframes, abstract position (realised as a concrete timing + time) and the
                # LAST start value; the two prior targets of the replay differ in every field
                record_sat(res, r.pc, z3.Or(bad), diverse_values(vals, api.fields, [(v, ty) for v, (n, ty) in zip(ovv2, api.target_fields)]) + nice_positions(pos, ap.p),
                           pos + [x for row in vals for x in row] + ovv2 + [ap.p, ap.tag, ap.rep, ap.rev] + list(extra_vars), model)
            else: res['problems'].append('solver unknown')
        if res['sample'] is None:
            res['sample'] = 'update twice + clone + start_with x2: timeline value unchanged; result terms independent of prior target'
    return close_result(res, m, rs)


def run_c09_merged(shape):
    """purity of MergedTimeline::update over two real derive timelines (same keyframes, independent timing): the merged value
    is unchanged by update, the animated properties do not depend on the prior target contents, evaluating twice is idempotent,
    and the latest start_with replaces earlier ones in every component"""
    subject, N, pres, eas, ov, _ = shape
    api, ap, m, pos, vals, ovv = setup(shape)
    ovv2 = [z3.Const(f'ov2_{n}', sort_of(ty)) for n, ty in api.target_fields]
    tm = Timing(); tm2 = Timing('_2'); time_v = z3.FP('time', F32)
    prog = structural._G['prog']
    of = [f for f in prog.by_last['of'] if f.impl_self == 'MergedTimeline'][0]
    upd = [f for f in prog.by_last['update'] if f.impl_self == 'MergedTimeline'][0]
    sw = [f for f in prog.by_last['start_with'] if f.impl_self == 'MergedTimeline'][0]

    def h(m):
        assume_positions(m, pos)
        m.assume(tm.valid()); m.assume(tm2.valid())
        kfs = mk_kfs(api, shape, pos, vals)
        tl = build_timeline(m, api, kfs, tm, tag_easing(0), memo_key='t')
        tl2 = build_timeline(m, api, kfs, tm2, tag_easing(0), memo_key='t2')
        mt = m.call_fn(of, [Agg('[]', [tl, tl2])])
        t_once = m.alloc(clone(mt)); t_twice = m.alloc(clone(mt))
        m.call_fn(sw, [t_once, m.alloc(ov_source(api, subject, ovv2))])
        m.call_fn(sw, [t_twice, m.alloc(ov_source(api, subject, ovv))])
        m.call_fn(sw, [t_twice, m.alloc(ov_source(api, subject, ovv2))])
        q4 = struct_eq(m, t_once, t_twice)
        before = clone(m.load(t_twice))
        ta, s0 = mk_target(api, 's0'); tb, s1 = mk_target(api, 's1')
        ga, gb = m.alloc(ta), m.alloc(tb)
        m.call_fn(upd, [t_twice, ga, Sc('f32', time_v)])
        q1 = struct_eq(m, before, m.load(t_twice))
        m.call_fn(upd, [t_twice, gb, Sc('f32', time_v)])
        first = clone(m.load(ga))
        m.call_fn(upd, [t_twice, ga, Sc('f32', time_v)])
        return dict(q1=q1, q3=True, q4=q4, a=first, a2=m.load(ga), b=m.load(gb), s0=s0, s1=s1, meta0=[], meta1=[])

    rs = m.explore(h)
    return judge_c09(shape, api, ap, m, pos, vals, ovv2, rs, N, pres, [tm.delay, tm2.delay, time_v])


def run_c09(shape):
    if len(shape) > 5:
        return run_c09_merged(shape)
    subject, N, pres, eas, ov = shape
    api, ap, m, pos, vals, ovv = setup(shape)
    ovv2 = [z3.Const(f'ov2_{n}', sort_of(ty)) for n, ty in api.target_fields]
    tm = Timing(); time_v = z3.FP('time', F32)

    def h(m):
        assume_positions(m, pos)
        m.assume(tm.valid())
        kfs = mk_kfs(api, shape, pos, vals)
        tl = build_timeline(m, api, kfs, tm, tag_easing(0), memo_key='t')
        tref = m.alloc(tl)
        meta0 = [m.call_fn(api.meta[k], [tref]) for k in ('delay', 'duration', 'repeat', 'cycle_duration')]
        # Q4: the latest start_with fully replaces earlier ones
        t_once = m.alloc(clone(tl)); t_twice = m.alloc(clone(tl))
        m.call_fn(api.start_with, [t_once, m.alloc(ov_source(api, subject, ovv2))])
        m.call_fn(api.start_with, [t_twice, m.alloc(ov_source(api, subject, ovv))])
        m.call_fn(api.start_with, [t_twice, m.alloc(ov_source(api, subject, ovv2))])
        q4 = struct_eq(m, t_once, t_twice)
        meta1 = [m.call_fn(api.meta[k], [t_twice]) for k in ('delay', 'duration', 'repeat', 'cycle_duration')]
        # Q3: a clone (real derive Clone) is the same value
        tcl = m.alloc(m.call_fn(api.clone, [t_twice]))
        q3 = struct_eq(m, tcl, t_twice)
        # Q1/Q2: update does not change the timeline and does not depend on prior target contents
        before = clone(m.load(t_twice))
        ta, s0 = mk_target(api, 's0'); tb, s1 = mk_target(api, 's1')
        ga, gb = m.alloc(ta), m.alloc(tb)
        m.call_fn(api.update, [t_twice, ga, Sc('f32', time_v)])
        q1 = struct_eq(m, before, m.load(t_twice))
        m.call_fn(api.update, [t_twice, gb, Sc('f32', time_v)])
        # evaluate again into the first target: idempotent
        first = clone(m.load(ga))
        m.call_fn(api.update, [t_twice, ga, Sc('f32', time_v)])
        return dict(q1=q1, q3=q3, q4=q4, a=first, a2=m.load(ga), b=m.load(gb), s0=s0, s1=s1, meta0=meta0, meta1=meta1)

    rs = m.explore(h)
    return judge_c09(shape, api, ap, m, pos, vals, ovv2, rs, N, pres, [])


# =========================================================================================== C10
def shapes_c10(tier):
    out = []
    for subject, nf in (('S1', 1), ('S2', 2)):
        for N in ((1, 2, 3) if subject == 'S1' else ((1, 2) if tier == 'quick' else (1, 2, 3))):
            for pres in itertools.product((0, 1), repeat=nf * N):
                pm = tuple(tuple(pres[nf * i:nf * i + nf]) for i in range(N))
                if not any(any(r) for r in pm): continue
                for eas in ([(0,) * N, (1,) + (0,) * (N - 1)] if tier == 'quick' else list(itertools.product((0, 1), repeat=N))):
                    out.append((subject, N, pm, tuple(eas), 1))
    return out


def run_c10(shape):
    subject, N, pres, eas, ov = shape
    api, ap, m, pos, vals, ovv = setup(shape)
    tm = Timing(); time_v = z3.FP('time', F32)

    def h(m):
        assume_positions(m, pos)
        m.assume(tm.valid())
        kfs = mk_kfs(api, shape, pos, vals)
        tl = build_timeline(m, api, kfs, tm, tag_easing(0), memo_key='t')
        plain = m.alloc(tl)
        sub = m.alloc(m.call_fn(api.clone, [plain]))
        m.call_fn(api.start_with, [sub, m.alloc(ov_source(api, subject, ovv))])
        ta, s0 = mk_target(api, 's0'); tb = clone(ta)
        ga, gb = m.alloc(ta), m.alloc(tb)
        m.call_fn(api.update, [plain, ga, Sc('f32', time_v)])
        m.call_fn(api.update, [sub, gb, Sc('f32', time_v)])
        return (m.load(ga), m.load(gb))

    rs = m.explore(h)
    res = new_result(shape)
    q = ap.p
    for r in rs:
        if r.outcome == 'infeasible': continue
        if r.outcome != 'ok':
            res['problems'].append(f'{r.outcome}: {r.msg}'); continue
        plain, sub = r.value
        bad = []
        for k, (n, ty) in enumerate(api.fields):
            j = api.target_idx(n)
            F = [i for i in range(N) if pres[i][k]]
            if not F: continue
            gp, gs = plain.f[j].t, sub.f[j].t
            ovk = ovv[j]
            # Q1: not started, or active at position 0 on the first forward pass  =>  exactly v
            at_start = z3.Or(ap.tag == 0, z3.And(ap.tag == 1, z3.fpIsZero(q), z3.Not(ap.rep), z3.Not(ap.rev)))
            one_at_zero = z3.fpGT(pos[F[1]], ZERO) if len(F) >= 2 else z3.BoolVal(True)
            bad.append(z3.And(at_start, one_at_zero, gs != ovk))
            # Q2: reverse pass, later cycle, after the end  =>  identical to the un-substituted twin
            later = z3.Or(ap.tag == 2, z3.And(ap.tag == 1, z3.Or(ap.rep, ap.rev)))
            bad.append(z3.And(later, gs != gp))
            # Q3: first forward pass, at or beyond the property's next keyframe after 0%  =>  identical
            nxt = z3.If(z3.fpGT(pos[F[0]], ZERO), pos[F[0]], pos[F[1]] if len(F) >= 2 else ONE)
            bad.append(z3.And(ap.tag == 1, z3.fpGEQ(q, nxt), one_at_zero, gs != gp))
        res['obligations'] += 1
        if not bad:
            res['discharged'] += 1; continue
        st, model = decide_with_contracts(list(r.pc) + [z3.Or(bad)])
        if st == 'unsat': res['discharged'] += 1
        elif st == 'sat':
            record_sat(res, r.pc, z3.Or(bad), diverse_values(vals, api.fields, [(v, ty) for v, (n, ty) in zip(ovv, api.target_fields)]) + nice_positions(pos, ap.p),
                       pos + [x for row in vals for x in row] + ovv + [ap.p, ap.tag, ap.rep, ap.rev], model)
        else: res['problems'].append('solver unknown')
        if res['sample'] is None:
            res['sample'] = f'plain {str(plain.f[0].t)[:90]} / substituted {str(sub.f[0].t)[:90]}'
    return close_result(res, m, rs)


# =========================================================================================== C02
def shapes_c02(tier):
    out = []
    for subject, nf in (('S1', 1), ('S2', 2)):
        for N in ((1, 2, 3) if subject == 'S1' else ((1, 2) if tier == 'quick' else (1, 2, 3))):
            for pres in itertools.product((0, 1), repeat=nf * N):
                pm = tuple(tuple(pres[nf * i:nf * i + nf]) for i in range(N))
                if not any(any(r) for r in pm): continue
                for eas in ([(0,) * N, (0,) * (N - 1) + (1,)] if tier == 'quick' else list(itertools.product((0, 1), repeat=N))):
                    for ov in (0, 1):
                        out.append((subject, N, pm, tuple(eas), ov))
    return out


def run_c02(shape):
    subject, N, pres, eas, ov = shape
    api, ap, m, pos, vals, ovv = setup(shape)
    tm = Timing(); time_v = z3.FP('time', F32)

    def h(m):
        assume_positions(m, pos, strict=True)      # "no other keyframe defines it at that position"
        m.assume(tm.valid())
        kfs = mk_kfs(api, shape, pos, vals)
        tl = build_timeline(m, api, kfs, tm, tag_easing(0), memo_key='t')
        tref = m.alloc(tl)
        if ov: m.call_fn(api.start_with, [tref, m.alloc(ov_source(api, subject, ovv))])
        tgt, s0 = mk_target(api, 's0')
        gref = m.alloc(tgt)
        m.call_fn(api.update, [tref, gref, Sc('f32', time_v)])
        return m.load(gref)

    rs = m.explore(h)
    res = new_result(shape)
    q = ap.p
    ov_on = z3.Or(ap.tag == 0, z3.And(ap.tag == 1, z3.Not(ap.rep), z3.Not(ap.rev))) if ov else z3.BoolVal(False)
    for r in rs:
        if r.outcome == 'infeasible': continue
        if r.outcome != 'ok':
            res['problems'].append(f'{r.outcome}: {r.msg}'); continue
        tgt = r.value
        bad = []
        for k, (n, ty) in enumerate(api.fields):
            j = api.target_idx(n)
            F = [i for i in range(N) if pres[i][k]]
            if not F: continue
            got = tgt.f[j].t
            v0 = z3.If(z3.fpIsZero(pos[F[0]]), vals[F[0]][k], DEFAULTS[ty]())      # the 0% value
            v0 = z3.If(ov_on, ovv[j], v0)
            v100 = vals[F[-1]][k]                                                   # the 100% value (last defined, held)
            if len(F) == 1:
                v100 = z3.If(z3.And(ov_on, z3.fpIsZero(pos[F[0]])), ovv[j], v100) if False else v100
            # Q1 / Q4: before the start and after the end (forward: 100%; reversing: the original 0% value)
            bad.append(z3.And(ap.tag == 0, got != v0))
            term_fwd = v100
            only_zero = z3.And(z3.fpIsZero(pos[F[0]])) if len(F) == 1 else z3.BoolVal(False)
            bad.append(z3.And(ap.tag == 2, z3.Not(tm.reverse), got != term_fwd))
            bad.append(z3.And(ap.tag == 2, tm.reverse, got != z3.If(z3.fpIsZero(pos[F[0]]), vals[F[0]][k], DEFAULTS[ty]())))
            # Q3: position exactly on a keyframe that defines the property
            for i in F:
                vi = vals[i][k]
                if ov: vi = z3.If(z3.And(ov_on, z3.fpIsZero(pos[i])), ovv[j], vi)
                bad.append(z3.And(ap.tag == 1, z3.fpEQ(q, pos[i]), got != vi))
            # end of a forward pass: position exactly 1.0 -> the 100% value
            end_v = v100
            if ov and len(F) == 1:
                end_v = z3.If(z3.And(ov_on, z3.fpIsZero(pos[F[0]]), z3.BoolVal(False)), ovv[j], v100)
            bad.append(z3.And(ap.tag == 1, q == ONE, z3.Not(z3.And(ov_on, z3.fpIsZero(pos[F[-1]]))), got != end_v))
        res['obligations'] += 1
        if not bad:
            res['discharged'] += 1; continue
        st, model = decide_with_contracts(list(r.pc) + [z3.Or(bad)])
        if st == 'unsat': res['discharged'] += 1
        elif st == 'sat':
            record_sat(res, r.pc, z3.Or(bad), diverse_values(vals, api.fields, [(v, ty) for v, (n, ty) in zip(ovv, api.target_fields)]),
                       pos + [x for row in vals for x in row] + ovv + [ap.p, ap.tag, ap.rep, ap.rev, tm.reverse], model)
        else: res['problems'].append('solver unknown')
        if res['sample'] is None:
            res['sample'] = f'{api.fields[0][0]} = {str(tgt.f[0].t)[:160]}'
    return close_result(res, m, rs)
