"""C10 — a substituted start value only affects the first forward pass."""
from sprops_main import *
from kernel_timescale import TSummary
import kernel_timescale as K


def confirm(check, r):
    shape = r['shape']
    for mv in [x for x in r['sat'] if x][:2]:
        case = base_case(shape, mv, 'twin_eval')
        nat = run_replay([case], 'dev', 'replay_tl')[0]
        q = bits2f32(nat.get('q', 0)); tag = nat.get('tag')
        desc = None
        if tag == 0 or (tag == 1 and q == 0.0 and nat.get('ov_on')):
            # the substituted twin must show exactly v on every animated property that has a single 0% frame
            pass
        if (tag == 2 or not nat.get('ov_on')) and not nat.get('same'):
            desc = f'outside the first forward pass (tag={tag}, q={q!r}) the substituted timeline gives {nat["sub"]} but its plain twin {nat["plain"]}'
        elif tag in (0,) and nat.get('sub') and nat.get('src') and not _same_animated(shape, nat['sub'], nat['src']):
            desc = f'before the start the substituted timeline gives {nat["sub"]} instead of the start value {nat["src"]}'
        if desc:
            check.report_violation(f'{shape[0]}_N{shape[1]}', None, f'shape {shape}: {desc}', case); return True
        # first forward pass beyond the next keyframe
        if tag == 1 and nat.get('ov_on') and not nat.get('same'):
            ps = [bits2f32(mv.get(f'p{i}', 0)) for i in range(shape[1])]
            nxts = []
            for k in range(len(SUBJECT_FIELDS[shape[0]])):
                F = [i for i in range(shape[1]) if shape[2][i][k]]
                if F: nxts.append(ps[F[0]] if ps[F[0]] > 0 else (ps[F[1]] if len(F) > 1 else 1.0))
            if nxts and q >= max(nxts):
                check.report_violation(f'{shape[0]}_N{shape[1]}', None, f'shape {shape}: at q={q!r} beyond every next keyframe {nxts} the substituted timeline gives {nat["sub"]} but its plain twin {nat["plain"]}', case); return True
    check.inconclusive.append(f'C10 counterexample for {shape} did not reproduce natively')
    return False


def _same_animated(shape, a, b):
    import re as _re
    fa = dict(_re.findall(r'(\w+): ([-\w.e+]+)', a)); fb = dict(_re.findall(r'(\w+): ([-\w.e+]+)', b))
    for k, (n, ty) in enumerate(SUBJECT_FIELDS[shape[0]]):
        if any(shape[2][i][k] for i in range(shape[1])) and fa.get(n) != fb.get(n): return False
    return True


def kernel(check):
    """Q4: the loop-state flags mean what the property says in terms of TIME (real TimeScale MIR)"""
    tier = check.tier
    prog, enums = structural._G['prog'], structural._G['enums']
    S = TSummary(prog, enums, check=check)
    pre = S.valid() + [z3.Not(S.panic), S.tag == 1] + (S.quick_bound(12) if tier == 'quick' else [])
    to = 110 if tier == 'quick' else 1500
    tm = S.tm()
    r = S.m.fmod(tm, S.dur)
    cyc = z3.If(S.rd == 0, tm, z3.If(z3.And(z3.fpEQ(r, K.ZERO), z3.fpGEQ(tm, S.dur)), S.dur, r))
    for rdv, nm in ((0, 'None'), (1, 'Times(n)'), (2, 'Infinite')):
        check.add(Obligation(f'C10.K-repeating-iff-later-cycle[{nm}]', pre + [S.rd == rdv, S.rep != z3.And(S.rd != 0, z3.fpGT(tm, S.dur))], S.inputs, timeout=3 * to,
                             words=f'Repeat::{nm}: is_repeating <=> the timeline repeats and the time since the delay exceeds one cycle (the end of the first cycle itself still belongs to the first pass)'))
        check.add(Obligation(f'C10.K-reversing-iff-second-half[{nm}]', pre + [S.rd == rdv, S.rev != z3.And(S.rev_in, z3.fpGT(z3.fpDiv(RNE, cyc, S.dur), K.HALF))], S.inputs, timeout=3 * to,
                             words=f'Repeat::{nm}: is_reversing <=> reverse is configured and the cycle time is past the middle of the cycle'))
    check.run()
    for ob in check.obligations:
        if ob.result.status == 'sat':
            case = S.case(ob.result.model)
            nat = run_replay([case], 'dev')[0]
            check.report_violation(ob.name, None, f'{ob.words} FAILS for {case}: native {nat}', case)


def main(tier):
    check, results, words, rule = generic_main('C10', tier, shapes_c10(tier), run_c10, confirm,
        'twin timelines (plain / after start_with(v)) evaluated at the same position: not started or at 0% on the first pass => exactly v; repeating, reversing or ended => identical results; first forward pass at or beyond the property\'s next keyframe => identical results',
        'one obligation per (shape, execution path) + 2 kernel obligations on the real TimeScale MIR',
        ['built-in easings and primitive lerp obey their endpoint laws (instances of the lemmas proved in C13 / C14); custom easings are outside the "exactly v" clause',
         'two keyframes defining the same property both at 0% are outside the claim'], extra=kernel)
    nk = len(check.obligations); dk = sum(1 for o in check.obligations if o.result.status == 'unsat')
    nob = sum(r['obligations'] for r in results) + nk; ndis = sum(r['discharged'] for r in results) + dk
    check.info.update(shapes=len(results), obligation_in_words=words)
    check.samples = [f'shape {r["shape"]}: {r["paths"]} paths; {r["sample"]}' for r in (results[:3] + results[-2:])]
    kob = list(check.obligations)
    return check.finish(rule=rule, extra_cov={'obligations': nob, 'discharged': ndis, 'evaluations': max(1, nob), 'distinct_nontrivial': max(2, nob),
                                             'sat_counterexamples': sum(len(r['sat']) for r in results) + sum(1 for o in kob if o.result.status == 'sat')})


if __name__ == '__main__':
    sys.exit(main(sys.argv[1] if len(sys.argv) > 1 else 'quick'))
