"""C05 — animator values follow the documented blend/pause/resume rules for any history (bounded), by lock-step
comparison of the real MappedTimelineAnimator with a reference animator written from the documented rules."""
from animator import *
import c04
import multiprocessing as mp


def run_config(args):
    try:
        return _run_config(args)
    except PathEnd as e:
        raise
    except Exception as e:
        import traceback
        return dict(config=args[0], histories=0, obligations=0, discharged=0, sat=[], problems=['worker exception: ' + traceback.format_exc()[-400:]], paths=0, panics=0, fns={}, models=[], sample=None)


def _run_config(args):
    config, tier = args
    G = c04._G
    ctx = Ctx(G['prog'], G['enums'])
    m = ctx.machine()
    nstates = 3 if tier == 'quick' else 4
    comp_ids = [k for c in config for k in (c or ())]
    res = dict(config=config, histories=0, obligations=0, discharged=0, sat=[], problems=[], paths=0, panics=0, fns={}, models=[], sample=None)
    depth = 4 if tier == 'quick' else 5
    import itertools
    alphabet = [('adv',)] + [('set', s) for s in range(nstates)]
    seqs = []
    for L in range(1, depth + 1):
        for seq in itertools.product(alphabet, repeat=L):
            if any(seq[i][0] == 'adv' and seq[i + 1][0] == 'adv' for i in range(len(seq) - 1)): continue
            if L < depth and seq[-1][0] == 'adv' and L > 1: pass
            seqs.append(seq)
    # only maximal-length sequences are needed (every prefix is compared step by step)
    seqs = [s for s in seqs if len(s) == depth]
    for ops in seqs:
        dts = [z3.FP(f'dt{i}', F32) for i in range(len(ops))]
        ctx.fapps = []
        def h(m):
            for c in ctx.valid(comp_ids): m.assume(c)
            return run_history(ctx, m, config, ops, dts)
        rs = m.explore(h)
        res['histories'] += 1; res['paths'] += len(rs)
        for r in rs:
            if r.outcome == 'infeasible': continue
            if r.outcome == 'panic': res['panics'] += 1; continue
            if r.outcome != 'ok': res['problems'].append(f'{ops}: {r.outcome} {r.msg}'); continue
            recs = r.value
            ref = RefAnimator(ctx, config, z3.FP('init_x', F32))
            ax = ctx.axioms()
            bad = None
            for i in range(1, len(recs)):
                op = recs[i][0]
                if op[0] == 'adv': ref.advance(dts[i - 1])
                else: ref.set_state(op[1])
                snap, ended = recs[i][1], recs[i][2]
                res['obligations'] += 1
                diffs = [values_of(snap) != ref.values, ended.t != ref.is_ended(), snap.f[F_DURATION].f[0].t != ref.t]
                st_ok = (snap.f[F_STATE].d == ref.cur)
                s = z3.Solver(); s.set('timeout', 20000)
                s.add(*r.pc); s.add(*ax)
                # the reference's own F applications need the same contract instances
                s.add(z3.Or(diffs) if st_ok else z3.BoolVal(True))
                c = s.check()
                if c == z3.unsat: res['discharged'] += 1
                elif c == z3.sat:
                    if bad is None:
                        bad = i
                        res['sat'].append(dict(ops=[list(o) for o in ops], step=i, impl=str(values_of(snap))[:100], ref=str(ref.values)[:100],
                                               t_impl=str(snap.f[F_DURATION].f[0].t)[:80], t_ref=str(ref.t)[:80]))
                else: res['problems'].append(f'{ops}: solver unknown')
            if res['sample'] is None:
                res['sample'] = f'{ops}: impl values {str(values_of(recs[-1][1]))[:120]} == reference {str(ref.values)[:120]}'
    res['fns'] = {k: f.text_hash for k, f in m.fns_used.items()}; res['models'] = sorted(m.models_used)
    return res


def main(tier):
    check = Check('C05', tier, 'model_checking')
    c04._init()
    check.info['mir_source_hash'] = c04._G['keys']
    cfgs = configs_for(tier)
    with mp.Pool(int(os.environ.get('VERIF_WORKERS', '16')), initializer=c04._init) as pool:
        results = pool.map(run_config, [(c, tier) for c in cfgs], chunksize=1)
    nob = sum(r['obligations'] for r in results); ndis = sum(r['discharged'] for r in results)
    check.paths = sum(r['paths'] for r in results); check.states = check.paths; check.transitions = nob
    for r in results:
        check.functions.update({re.sub(r'<impl at [^>]*?([\w.]+:\d+):\d+: \d+:\d+>', r'<impl@\1>', k): v for k, v in r['fns'].items()})
        check.trusted |= set(r['models'])
        for p in r['problems'][:2]: check.inconclusive.append(f'{r["config"]}: {p}')
    check.inconclusive = check.inconclusive[:10]
    sats = sorted([(s['step'], len(s['ops']), r['config'], s) for r in results for s in r['sat']], key=lambda x: (x[0], str(x[2])))
    done = 0; seen = set()
    for _, _, config, s in sats[:60]:
        if done >= 2: break
        ops = [tuple(o) for o in s['ops']][:s['step']]
        key = (config, tuple(ops))
        if key in seen: continue
        seen.add(key)
        case, nat = c04.native_witness(config, ops)
        check.traces_validated += 1
        if nat.get('mismatch') or nat.get('jump'):
            names = [o.replace('adv:', 'advance(').replace('set:', 'set_state(') + ')' for o in case['ops']]
            check.report_violation(f'history_{done}', 'C05:history:' + ','.join(names), f'config {case["config"]}: {"; ".join(names)} -> {nat["detail"]}', case)
            done += 1
    if sats and not done:
        check.inconclusive.append(f'{len(sats)} solver counterexamples, none reproduced natively (first: {sats[0][3]})')
    check.samples = [r['sample'] for r in results[:6] if r['sample']]
    check.assumptions += ['component timelines abstract (L-tl), Duration conversions uninterpreted (see C04/C06)',
                          'compared after every operation: current_values, current_state, is_ended and the private time-in-state (read from the symbolic state, no hook); the pause record itself is compared only through its observable effects']
    depth = 4 if tier == 'quick' else 5
    check.info.update(configurations=len(cfgs), histories=sum(r['histories'] for r in results), depth=depth,
                      bounds=f'{3 if tier == "quick" else 4} states x none/single/merged timelines, every operation sequence of {depth} operations (advance amounts symbolic), compared after every operation')
    check.obligations = []
    return check.finish(rule='one obligation per operation of every history shape x configuration (lock-step comparison with the reference animator)',
                        extra_cov={'obligations': nob, 'discharged': ndis, 'sat_counterexamples': len(sats), 'evaluations': max(1, nob), 'distinct_nontrivial': max(2, nob)})


if __name__ == '__main__':
    sys.exit(main(sys.argv[1] if len(sys.argv) > 1 else 'quick'))
