"""State animator checks (C04, C05, C06, C07): the REAL generic MIR of MappedTimelineAnimator::{new, blend_next_timeline,
update_current_values, advance, set_state, is_ended, current_values}, MapLike for EnumMap::{get,get_mut} and
MergedTimeline::{start_with, update, duration} is executed over abstract component timelines that obey the timeline
contract L-tl (proved on the real derive timelines in C02/C08/C09/C10):

  update(target, t)  writes  F_k(start values, t)  into the animated property and nothing else,
  start_with(v)      replaces the start values,          F_k(v, t) = v  for t <= delay (in particular t = 0),
  duration()         is a fixed value d_k >= 0 (possibly +inf).
"""
from common import *
from structural import SUBJECTS, struct_eq
from mirsym import models

ZERO = fpv32(0.0)
NSTATES = 4
STATE_NAMES = ['A', 'B', 'C', 'D']


class Ctx:
    def __init__(self, prog, enums, ncomp=None):
        self.prog, self.enums = prog, enums
        self.F = {}
        self.fapps = []           # (term, v, t, k) for axiom instantiation
        self.anim = {k: [f for f in prog.by_last[k] if f.impl_self == 'MappedTimelineAnimator'][0]
                     for k in ('new', 'advance', 'set_state', 'is_ended', 'current_values', 'current_state')}
        self.sapps = []           # (S(n) term, n) instances of the Duration->f32 conversion

    def Fk(self, k):
        if k not in self.F:
            self.F[k] = z3.Function(f'TL_{k}', F32, F32, F32)       # (start value, time) -> value
        return self.F[k]

    def dur(self, k):
        return z3.FP(f'tl_dur_{k}', F32)

    def delay(self, k):
        return z3.FP(f'tl_delay_{k}', F32)

    # ---- abstract timeline: Agg('AbsTL', [id, start value])
    def tl(self, k):
        return Agg('AbsTL', [Sc('int', z3.IntVal(k)), Sc('f32', z3.FP(f'tl_init_{k}', F32))])

    def ov_timeline(self, m, callee, args):
        method = callee.rsplit('::', 1)[1]
        t = args[0]
        v = t
        while isinstance(v, Ref): v = m.load(v)
        if not (isinstance(v, Agg) and v.name == 'AbsTL'):
            return NotImplemented
        k = z3.simplify(v.f[0].t).as_long()
        if method == 'update':
            tgt = args[1]; time = args[2].t
            val = self.Fk(k)(v.f[1].t, time)
            self.fapps.append((val, v.f[1].t, time, k))
            m.store(Ref(tgt.c, tgt.k, tgt.path + (('f', 0),)), Sc('f32', val))
            return UNIT
        if method == 'start_with':
            src = args[1]
            while isinstance(src, Ref): src = m.load(src)
            v.f[1] = Sc('f32', src.f[0].t)
            return UNIT
        if method == 'duration': return Sc('f32', self.dur(k))
        if method == 'delay': return Sc('f32', self.delay(k))
        return NotImplemented

    def machine(self):
        ov = [(re.compile(r'as (timeline::)?Timeline>::(update|start_with|duration|delay)$'), self.ov_timeline)]
        m = Machine(self.prog, self.enums, overrides=ov)
        m.enum_map_len = NSTATES
        m.duration_mode = 'uf'
        return m

    def axioms(self, extra_terms=()):
        """instances of the contracts used: L-tl (F_k(v, t) = v when t is zero) and L-dur (S(0) = 0 is built into the
        Duration model; finite, non-negative)"""
        ax = []
        for val, v, t, k in self.fapps:
            ax.append(z3.Implies(z3.fpIsZero(t), val == v))
        return ax

    def state(self, i):
        return En('St', i, {i: []})

    def build(self, m, config, init_state=0, values=None):
        """config: per state None | tuple of component ids -> animator value built by the real `new`"""
        slots = []
        for comps in config:
            if comps is None: slots.append(none())
            else: slots.append(some(Agg('MergedTimeline', [VecObj([self.tl(k) for k in comps])])))
        emap = Agg('EnumMap', [VecObj(slots)])
        vals = values if values is not None else Agg('V', [Sc('f32', z3.FP('init_x', F32))])
        return m.call_fn(self.anim['new'], [emap, self.state(init_state), vals])

    def valid(self, comp_ids):
        cs = []
        for k in comp_ids:
            d = self.dur(k)
            cs += [z3.Not(z3.fpIsNaN(d)), z3.fpGEQ(d, ZERO), fin(self.delay(k)), z3.fpGEQ(self.delay(k), ZERO)]
        return cs


# field indices of MappedTimelineAnimator
F_TIMELINES, F_STATE, F_VALUES, F_PAUSED, F_DURATION = 0, 1, 2, 3, 4


def snapshot(m, aref):
    a = m.load(aref)
    return clone(a)


def values_of(a):
    return a.f[F_VALUES].f[0].t


def run_history(ctx, m, config, ops, dts, bound=True):
    """executes a concrete operation shape with symbolic advance amounts; returns the per-step records"""
    a = ctx.build(m, config)
    aref = m.alloc(a)
    recs = [('new', snapshot(m, aref))]
    for i, op in enumerate(ops):
        if op[0] == 'adv':
            m.assume(z3.And(fin(dts[i]), z3.fpGEQ(dts[i], ZERO), z3.fpLT(dts[i], fpv32(2.0 ** 40)) if bound else z3.BoolVal(True)))
            m.call_fn(ctx.anim['advance'], [aref, Sc('f32', dts[i])])
        else:
            m.call_fn(ctx.anim['set_state'], [aref, m.alloc(ctx.state(op[1]))])
        ended = m.call_fn(ctx.anim['is_ended'], [aref])
        recs.append((op, snapshot(m, aref), ended))
    return recs


def configs_for(tier):
    """which states have a timeline (component ids are globally unique); state 0 is the initial state"""
    cfgs = []
    n = 3 if tier == 'quick' else 4
    import itertools
    for mask in itertools.product((0, 1, 2), repeat=n):       # 0: none, 1: single timeline, 2: merged pair
        if sum(1 for x in mask if x) == 0: continue
        if mask.count(2) > 1: continue
        cfg = []; k = 0
        for x in mask:
            if x == 0: cfg.append(None)
            elif x == 1: cfg.append((k,)); k += 1
            else: cfg.append((k, k + 1)); k += 2
        cfg += [None] * (NSTATES - n)
        cfgs.append(tuple(cfg))
    return cfgs


def op_shapes(nstates, depth):
    import itertools
    alphabet = [('adv',)] + [('set', s) for s in range(nstates)]
    for L in range(1, depth + 1):
        for seq in itertools.product(alphabet, repeat=L):
            # canonical: no two consecutive advances (advance(a);advance(b) is C06), must contain a set_state
            if any(seq[i][0] == 'adv' and seq[i + 1][0] == 'adv' for i in range(len(seq) - 1)): continue
            if not any(o[0] == 'set' for o in seq): continue
            if seq[-1][0] != 'set': continue
            yield seq


# ------------------------------------------------------------------------------------------- reference (C05)
class RefAnimator:
    """reference written from the documented rules; operates on the same symbolic terms"""

    def __init__(self, ctx, config, init_x):
        self.ctx = ctx; self.config = config
        self.cur = 0; self.t = z3.BitVecVal(0, 128); self.pause = None
        self.values = init_x
        self.start = {}          # component id -> start value
        for comps in config:
            for k in (comps or ()):
                self.start[k] = z3.FP(f'tl_init_{k}', F32)
        self.blend(0)

    def has(self, s): return self.config[s] is not None

    def blend(self, s):
        for k in (self.config[s] or ()):
            self.start[k] = self.values

    def evaluate(self):
        S = z3.Function('DUR_AS_F32', z3.BitVecSort(128), F32)
        if self.has(self.cur):
            for k in self.config[self.cur]:          # merged: components applied in order, the last one wins
                self.values = self.ctx.Fk(k)(self.start[k], S(self.t))

    def advance(self, dt):
        D = z3.Function('DUR_FROM_F32', F32, z3.BitVecSort(128))
        self.t = self.t + D(dt)
        self.evaluate()

    def set_state(self, s):
        if s == self.cur: return
        if self.pause is not None and self.pause[0] == s:
            self.t = self.pause[1]; self.pause = None             # resume at the remembered position
        else:
            if self.has(self.cur) and not self.has(s):
                self.pause = (self.cur, self.t)                   # freeze: remember the interrupted animation
            elif self.has(s):
                self.pause = None                                 # entering another animated state discards it
            self.blend(s)
            self.t = z3.BitVecVal(0, 128)
        self.cur = s
        self.evaluate()

    def is_ended(self):
        S = z3.Function('DUR_AS_F32', z3.BitVecSort(128), F32)
        if not self.has(self.cur): return z3.BoolVal(True)
        ds = [self.ctx.dur(k) for k in self.config[self.cur]]
        mx = ds[0]
        for d in ds[1:]:
            mx = z3.If(z3.fpGT(d, mx), d, mx) if False else z3.If(z3.fpGEQ(d, mx), d, mx)
        return z3.fpGEQ(S(self.t), mx)
