"""C17 — derive(Animate) yields a correct timeline API for every struct shape (generated family; translation validation + C01/C08)."""
from structural import *
import structural, c15, gen_macros
from mirsym.parser import type_head


def zero(ty):
    return fpv32(0.0) if ty == 'f32' else (z3.FPVal(0.0, F64) if ty == 'f64' else z3.BitVecVal(0, INT_BITS[ty]))


class ShapeApi(Api):
    def __init__(self, prog, sh):
        self.prog = prog; S = sh['name']; self.s = S
        anim = [(n, ty) for n, ty, a, v in sh['fields'] if a] or [(n, ty) for n, ty, a, v in sh['fields']]
        self.fields = anim; self.target_fields = [(n, ty) for n, ty, a, v in sh['fields']]
        sub = lambda last, **kw: find_fn(prog, last, crate='subjects', **kw)
        self.timeline = [f for f in prog.by_last['timeline'] if f.crate == 'subjects' and f'<{S}KeyframeData>' in f.ret][0]
        self.keyframe = sub('keyframe', ret=f'{S}KeyframeBuilder')
        self.keyframe_from = sub('keyframe_from', ret=f'{S}KeyframeBuilder')
        self.setters = {n: sub(n, arg0=f'{S}KeyframeBuilder') for n, _ in self.fields}
        self.kf_easing = sub('easing', arg0=f'{S}KeyframeBuilder')
        self.cfg = {k: find_fn(prog, k, arg0='TimelineConfiguration', crate='mina_core') for k in ('delay_seconds', 'duration_seconds', 'repeat', 'reverse', 'default_easing', 'keyframe')}
        self.build = [f for f in prog.by_last['build'] if f.crate == 'subjects' and f.ret == f'{S}Timeline'][0]
        self.update = sub('update', arg0=f'{S}Timeline'); self.start_with = sub('start_with', arg0=f'{S}Timeline'); self.clone = sub('clone', arg0=f'{S}Timeline')
        self.meta = {k: sub(k, arg0=f'{S}Timeline') for k in ('delay', 'duration', 'repeat', 'cycle_duration')}


def check_shape(prog, enums, sh, res):
    S = sh['name']
    api = ShapeApi(prog, sh)
    all_names = [n for n, ty, a, v in sh['fields']]
    anim_names = [n for n, _ in api.fields]
    problems = []
    # (a) exactly one setter per animated field on the keyframe builder, and no setter for any other field
    setters = sorted(f.last for f in prog.fns if f.kind == 'fn' and f.crate == 'subjects' and f.args and f.args[0][1] == f'{S}KeyframeBuilder' and len(f.args) == 2 and f.last in all_names)
    if setters != sorted(anim_names):
        problems.append(f'setters {setters} != animated fields {sorted(anim_names)}')
    # the target type of update is the (remote) struct itself
    tgt_ty = type_head(api.update.args[1][1])
    if tgt_ty != S: problems.append(f'update targets {tgt_ty}, expected {S}')
    ap = AbstractPosition()
    m = machine_for(prog, enums, abstract_pos=ap)
    p = z3.FP('p0', F32); tm = Timing(); time_v = z3.FP('time', F32)
    vals = {n: z3.Const(f'val_{n}', sort_of(ty)) for n, ty in api.target_fields}
    out = {}

    def h(m):
        m.assume(z3.And(z3.fpGEQ(p, ZERO), z3.fpLEQ(p, ONE), z3.Not(z3.fpIsNegative(p)), tm.valid()))
        src = Agg(S, [Sc(ty, vals[n]) for n, ty in api.target_fields])
        # (b) keyframe_from(v, p) == keyframe(p) followed by exactly the animated setters
        kf1 = m.call_fn(api.keyframe_from, [m.alloc(src), Sc('f32', p)])
        kf2 = m.call_fn(api.keyframe, [Sc('f32', p)])
        for n, ty in api.fields:
            kf2 = m.call_fn(api.setters[n], [kf2, Sc(ty, vals[n])])
        same_kf = struct_eq(m, m.alloc(kf1), m.alloc(kf2))
        # (c) + (d): a one-keyframe timeline with every animated field, symbolic timing
        kfs = [{'pos': p, 'vals': {n: vals[n] for n, ty in api.fields}, 'easing': None}]
        tl = build_timeline(m, api, kfs, tm, tag_easing(0))
        tref = m.alloc(tl)
        meta = {k: m.call_fn(api.meta[k], [tref]) for k in api.meta}
        ts = m.load(tref).f[1]        # the generated struct: boundary_times, timescale, sub-timelines...
        gd = [f for f in prog.by_last['get_duration'] if f.crate == 'mina_core'][0]
        dur_ref = m.call_fn(gd, [m.alloc(clone(ts))])
        tgt, s0 = mk_target(api, 's0'); gref = m.alloc(tgt)
        m.call_fn(api.update, [tref, gref, Sc('f32', time_v)])
        return dict(same_kf=same_kf, meta=meta, dur_ref=dur_ref, tgt=m.load(gref), s0=s0)

    rs = m.explore(h)
    res['paths'] += len(rs)
    for r in rs:
        if r.outcome == 'infeasible': continue
        if r.outcome == 'panic': continue
        if r.outcome != 'ok':
            problems.append(f'{r.outcome}: {r.msg}'); continue
        o = r.value
        res['obligations'] += 1
        if not o['same_kf']:
            res['sat'].append(f'{S}: keyframe_from differs from keyframe + animated setters'); continue
        bad = []
        bad.append(o['meta']['delay'].t != tm.delay)
        cyc = o['meta']['cycle_duration']
        cd = cyc.d if not isinstance(cyc.d, int) else z3.BitVecVal(cyc.d, 64)
        bad.append(z3.Not(z3.And(cd == 1, cyc.p[1][0].t == tm.dur)) if 1 in cyc.p and cyc.p[1] else z3.BoolVal(True))
        rep = o['meta']['repeat']
        rd = rep.d if not isinstance(rep.d, int) else z3.BitVecVal(rep.d, 64)
        bad.append(rd != tm.rd)
        if 1 in rep.p and rep.p[1]: bad.append(z3.And(tm.rd == 1, rep.p[1][0].t != tm.n))
        bad.append(o['meta']['duration'].t != o['dur_ref'].t)
        # update: C01 reference for one keyframe (synthetic 0% frame with the type default, hold to 100%), other fields untouched
        q = ap.p
        for j, (n, ty) in enumerate(api.target_fields):
            got = o['tgt'].f[j].t
            if n not in anim_names:
                bad.append(got != o['s0'][j].t); continue
            L = L_UF[ty]
            qc = clamp01(q)
            seg1 = z3.And(ap.tag == 1, z3.fpLT(ZERO, q), z3.fpLT(q, p))
            w1 = z3.fpDiv(RNE, z3.fpSub(RNE, qc, ZERO), z3.fpSub(RNE, p, ZERO))
            bad.append(z3.And(seg1, got != L(zero(ty), vals[n], E_UF(z3.IntVal(0), w1))))
            seg2 = z3.And(ap.tag == 1, z3.fpLT(p, q), z3.fpLT(q, ONE))
            w2 = z3.fpDiv(RNE, z3.fpSub(RNE, qc, p), z3.fpSub(RNE, ONE, p))
            bad.append(z3.And(seg2, got != L(vals[n], vals[n], E_UF(z3.IntVal(0), w2))))
        st, model = decide(list(r.pc) + [z3.Or(bad)])
        if st == 'unsat': res['discharged'] += 1
        elif st == 'sat': res['sat'].append(f'{S}: accessor / update obligation fails')
        else: problems.append('solver unknown')
    for k, f in m.fns_used.items(): res['fns'][k] = f.text_hash
    res['models'] = sorted(set(res['models']) | m.models_used)
    if problems:
        if any('setters' in x or 'targets' in x for x in problems):
            res['sat'].append(f'{S}: ' + '; '.join(x for x in problems if 'setters' in x or 'targets' in x))
        res['problems'] += [f'{S}: {x}' for x in problems if 'setters' not in x and 'targets' not in x][:2]


_PE = None


def _one(sh):
    res = new_result(sh['name'])
    try:
        check_shape(_PE[0], _PE[1], sh, res)
    except (RuntimeError, IndexError) as e:
        res['sat'].append(f'{sh["name"]}: generated API incomplete: {e}')
    return res


def main(tier):
    check = Check('C17', tier, 'translation_validation')
    idx, prog, enums, keys = c15.load(tier)
    check.info['mir_source_hash'] = dict(keys)
    import multiprocessing as mp
    global _PE
    _PE = (prog, enums)
    with mp.Pool(int(os.environ.get('VERIF_WORKERS', '16'))) as pool:
        parts = pool.map(_one, idx['structs'], chunksize=1)
    res = new_result('all')
    for r in parts:
        for k in ('paths', 'obligations', 'discharged'): res[k] += r[k]
        res['sat'] += r['sat']; res['problems'] += r['problems']; res['fns'].update(r['fns']); res['models'] = sorted(set(res['models']) | set(r['models']))
    check.functions.update({re.sub(r'<impl at [^>]*?([\w.]+:\d+):\d+: \d+:\d+>', r'<impl@\1>', k): v for k, v in res['fns'].items()})
    check.trusted |= set(res['models']); check.paths = res['paths']
    for p in res['problems'][:8]: check.inconclusive.append(p)
    for s in res['sat'][:3]:
        check.report_violation('shape', None, s + ' (read off the compiled expansion of the real derive macro: the MIR item list / symbolic execution of the generated functions)', {'kind': 'derive_shape', 'detail': s})
    check.programs = len(idx['structs'])
    check.samples = [f'struct {sh["name"]}: fields {[(n, ty, "animate" if a else "") for n, ty, a, v in sh["fields"]]} remote={sh["remote"]}' for sh in idx['structs'][:4] + idx['structs'][-2:]]
    check.assumptions += ['struct shapes are a generated family (1..6 fields of f32/f64/u8/i16/i32/u32, every #[animate] subset up to 3 (thorough 4) fields, listed patterns for 5-6 fields, visibilities, remote proxies): stated bound',
                          'update is compared with the C01 reference on a one-keyframe timeline with every animated field present (the per-property logic itself is C01); lerp/easing uninterpreted; time scale abstracted (L-pos)',
                          'a violation here is a fact about the compiled macro expansion; its replay is the generated crate itself (subjects/macros1)']
    check.obligations = []
    return check.finish(rule='one obligation per (struct shape, execution path): setter set, keyframe_from, accessors, update reference, untouched fields',
                        extra_cov={'obligations': res['obligations'], 'discharged': res['discharged'], 'programs': len(idx['structs']), 'disagreements_checked': len(res['sat']),
                                   'evaluations': max(1, res['obligations']), 'distinct_nontrivial': max(2, res['obligations']), 'sat_counterexamples': len(res['sat'])})


if __name__ == '__main__':
    sys.exit(main(sys.argv[1] if len(sys.argv) > 1 else 'quick'))
