"""C12 — a merged timeline is an ordered overlay with aggregate timing (real MergedTimeline MIR over real derive timelines)."""
from sprops_main import *
import structural


def shapes_for(tier):
    """('real', masks): components are real derive(Animate) timelines (n <= 1: wrapping a single timeline);
    ('abs', masks): components are abstract timelines obeying L-tl, each animating the masked subset of (x, y)"""
    pats = [(1, 1), (1, 0), (0, 1)]
    out = [('real', ()), ('real', ((1, 1),)), ('real', ((1, 0),)), ('real', ((0, 1),))]
    for n in (0, 1, 2, 3) if tier == 'quick' else (0, 1, 2, 3, 4):
        for c in itertools.product(pats, repeat=n):
            if n == 4 and c.count((1, 1)) not in (0, 4) : continue
            out.append(('abs', c))
    return out


def repeat_ordinal(d, n):
    return z3.If(d == 0, z3.BitVecVal(0, 32), z3.If(d == 1, n, z3.BitVecVal(0xFFFFFFFF, 32)))


def run_abs(masks):
    """abstract components: component k writes FX_k(start.x, t) / FY_k(start.y, t) into the masked fields; its
    delay / duration / repeat / cycle_duration are symbolic values"""
    prog, enums = structural._G['prog'], structural._G['enums']
    n = len(masks)
    M = {k: [f for f in prog.by_last[k] if f.impl_self == 'MergedTimeline'][0] for k in ('of', 'update', 'start_with', 'delay', 'duration', 'repeat', 'cycle_duration', 'clone')}
    FX = [z3.Function(f'FX_{k}', F32, F32, F32) for k in range(n)]; FY = [z3.Function(f'FY_{k}', F32, F32, F32) for k in range(n)]
    dl = [z3.FP(f'delay_{k}', F32) for k in range(n)]; du = [z3.FP(f'total_{k}', F32) for k in range(n)]
    cy = [z3.FP(f'cycle_{k}', F32) for k in range(n)]; cyd = [z3.BitVec(f'cycle_some_{k}', 64) for k in range(n)]
    rd = [z3.BitVec(f'rd_{k}', 64) for k in range(n)]; rn = [z3.BitVec(f'n_{k}', 32) for k in range(n)]
    time_v = z3.FP('time', F32)

    def ov(m, callee, args):
        method = callee.rsplit('::', 1)[1]
        v = args[0]
        while isinstance(v, Ref): v = m.load(v)
        if not (isinstance(v, Agg) and v.name == 'AbsTL'): return NotImplemented
        k = z3.simplify(v.f[0].t).as_long()
        if method == 'update':
            tgt = args[1]; t = args[2].t
            if masks[k][0]: m.store(Ref(tgt.c, tgt.k, tgt.path + (('f', 0),)), Sc('f32', FX[k](v.f[1].t, t)))
            if masks[k][1]: m.store(Ref(tgt.c, tgt.k, tgt.path + (('f', 1),)), Sc('f32', FY[k](v.f[2].t, t)))
            return UNIT
        if method == 'start_with':
            src = args[1]
            while isinstance(src, Ref): src = m.load(src)
            v.f[1] = Sc('f32', src.f[0].t); v.f[2] = Sc('f32', src.f[1].t); return UNIT
        if method == 'delay': return Sc('f32', dl[k])
        if method == 'duration': return Sc('f32', du[k])
        if method == 'repeat': return En('Repeat', rd[k], {0: [], 1: [Sc('u32', rn[k])], 2: []})
        if method == 'cycle_duration': return En('Option', cyd[k], {0: [], 1: [Sc('f32', cy[k])]})
        if method == 'clone': return NotImplemented
        return NotImplemented
    m = Machine(prog, enums, overrides=[(re.compile(r'as (timeline::)?Timeline>::(update|start_with|duration|delay|repeat|cycle_duration)$'), ov)])

    def tl(k): return Agg('AbsTL', [Sc('int', z3.IntVal(k)), Sc('f32', z3.FP(f'sx_{k}', F32)), Sc('f32', z3.FP(f'sy_{k}', F32))])

    def h(m):
        for k in range(n):
            m.assume(z3.And(fin(dl[k]), z3.fpGEQ(dl[k], ZERO), z3.Not(z3.fpIsNaN(du[k])), z3.fpGEQ(du[k], ZERO), fin(cy[k]), z3.fpGT(cy[k], ZERO), z3.ULE(rd[k], 2), z3.ULE(cyd[k], 1)))
        merged = m.alloc(m.call_fn(M['of'], [Agg('[]', [tl(k) for k in range(n)])]))
        out = dict(delay=m.call_fn(M['delay'], [merged]), duration=m.call_fn(M['duration'], [merged]), repeat=m.call_fn(M['repeat'], [merged]), cycle=m.call_fn(M['cycle_duration'], [merged]))
        src = Agg('V2', [Sc('f32', z3.FP('ov_x', F32)), Sc('f32', z3.FP('ov_y', F32))])
        m.call_fn(M['start_with'], [merged, m.alloc(src)])
        comps = m.load(merged).f[0].items
        out['start_with_all'] = all(c.f[1].t.eq(src.f[0].t) and c.f[2].t.eq(src.f[1].t) for c in comps) and len(comps) == n
        tgt = Agg('V2', [Sc('f32', z3.FP('s0_x', F32)), Sc('f32', z3.FP('s0_y', F32))])
        ga = m.alloc(clone(tgt)); m.call_fn(M['update'], [merged, ga, Sc('f32', time_v)])
        out['merged'] = m.load(ga)
        return out

    rs = m.explore(h)
    res = new_result(('abs', masks))
    for r in rs:
        if r.outcome == 'infeasible': continue
        if r.outcome != 'ok':
            res['problems'].append(f'{r.outcome}: {r.msg}'); continue
        o = r.value
        res['obligations'] += 1
        # reference overlay: components in order, later ones win
        ex, ey = z3.FP('s0_x', F32), z3.FP('s0_y', F32)
        for k in range(n):
            if masks[k][0]: ex = FX[k](z3.FP('ov_x', F32), time_v)
            if masks[k][1]: ey = FY[k](z3.FP('ov_y', F32), time_v)
        bad = [o['merged'].f[0].t != ex, o['merged'].f[1].t != ey]
        fails = [] if o['start_with_all'] else ['start_with did not reach every component']
        if n == 0:
            bad += [z3.Not(z3.fpIsZero(o['delay'].t)), z3.Not(z3.fpIsZero(o['duration'].t))]
            if not (isinstance(o['repeat'].d, int) and o['repeat'].d == 0): fails.append('empty repeat != None')
            if not (isinstance(o['cycle'].d, int) and o['cycle'].d == 0): fails.append('empty cycle_duration != None')
        else:
            mn, mx = dl[0], du[0]
            for x in dl[1:]: mn = z3.If(z3.fpLT(x, mn), x, mn)
            for x in du[1:]: mx = z3.If(z3.fpGT(x, mx), x, mx)
            bad += [z3.Not(z3.fpEQ(o['delay'].t, mn)), z3.Not(z3.Or(o['duration'].t == mx, z3.fpEQ(o['duration'].t, mx)))]
            ords = [repeat_ordinal(rd[k], rn[k]) for k in range(n)]
            mo = ords[0]
            for x in ords[1:]: mo = z3.If(z3.UGT(x, mo), x, mo)
            rep = o['repeat']
            rdd = rep.d if not isinstance(rep.d, int) else z3.BitVecVal(rep.d, 64)
            rnn = rep.p[1][0].t if 1 in rep.p and rep.p[1] else z3.BitVecVal(0, 32)
            bad.append(repeat_ordinal(rdd, rnn) != mo)
            cyc = o['cycle']
            cd = cyc.d if not isinstance(cyc.d, int) else z3.BitVecVal(cyc.d, 64)
            agree = z3.And([cyd[k] == 1 for k in range(n)] + [z3.fpEQ(cy[0], cy[k]) for k in range(1, n)])
            bad.append((cd == 1) != agree)
            if 1 in cyc.p and cyc.p[1]: bad.append(z3.And(cd == 1, z3.Not(z3.fpEQ(cyc.p[1][0].t, cy[0]))))
        if fails:
            res['sat'].append(dict(kind='structural', fails=fails)); continue
        s = z3.Solver(); s.set('timeout', 20000); s.add(*r.pc); s.add(z3.Or(bad))
        c = s.check()
        if c == z3.unsat: res['discharged'] += 1
        elif c == z3.sat:
            mdl = s.model()
            res['sat'].append(model_values(mdl, dl + du + cy + cyd + rd + rn + [time_v]))
        else: res['problems'].append('solver unknown')
        if res['sample'] is None: res['sample'] = f'x={str(o["merged"].f[0].t)[:60]} delay={str(o["delay"].t)[:80]}'
    # disjoint components in swapped order: the reference overlay above is order-insensitive for disjoint masks, so the
    # two orders are covered by the two mask tuples (a, b) and (b, a) of the shape list
    return close_result(res, m, rs)


def run_shape(shape):
    if shape[0] == 'abs':
        return run_abs(shape[1])
    shape = shape[1]
    r = run_real(shape)
    r['shape'] = ('real', shape)
    return r


def run_real(shape):
    prog, enums = structural._G['prog'], structural._G['enums']
    api = Api(prog, 'S2')
    n = len(shape)
    tms = [Timing(f'_{k}') for k in range(n)]
    pos = [z3.FP(f'p{k}', F32) for k in range(n)]
    vals = [[z3.Const(f'v{k}_{nm}', sort_of(ty)) for nm, ty in api.fields] for k in range(n)]
    ovv = [z3.Const(f'ov_{nm}', sort_of(ty)) for nm, ty in api.target_fields]
    time_v = z3.FP('time', F32)
    M = {k: [f for f in prog.by_last[k] if f.impl_self == 'MergedTimeline'][0] for k in ('of', 'update', 'start_with', 'delay', 'duration', 'repeat', 'cycle_duration', 'clone')}
    from_fn = [f for f in prog.by_last['from'] if f.impl_self == 'MergedTimeline'][0]
    # each component's time scale is abstracted by its own contract instance L-pos (C03); lerp/easing stay uninterpreted
    aps = {}
    def pos_handler(m, callee, args):
        ts = m.load(args[0])
        key = str(ts.f[0].t)
        if key not in aps:
            aps[key] = AbstractPosition('_' + key)
        return aps[key].handler(m, callee, args)
    m = machine_for(prog, enums)
    m.overrides.append((re.compile(r'TimeScale::get_position$'), pos_handler))

    def h(m):
        comps = []
        for k in range(n):
            m.assume(z3.And(tms[k].valid(), z3.fpGEQ(pos[k], ZERO), z3.fpLEQ(pos[k], ONE), z3.Not(z3.fpIsNegative(pos[k]))))
            kf = [{'pos': pos[k], 'vals': {nm: (vals[k][j] if shape[k][j] else None) for j, (nm, ty) in enumerate(api.fields)}, 'easing': None}]
            comps.append(build_timeline(m, api, kf, tms[k], tag_easing(k), memo_key=f'c{k}'))
        merged = m.alloc(m.call_fn(M['of'], [Agg('[]', [clone(c) for c in comps])]))
        out = {}
        # aggregates
        out['delay'] = m.call_fn(M['delay'], [merged]); out['duration'] = m.call_fn(M['duration'], [merged])
        out['repeat'] = m.call_fn(M['repeat'], [merged]); out['cycle'] = m.call_fn(M['cycle_duration'], [merged])
        # clone is the same value
        out['clone_same'] = struct_eq(m, m.alloc(m.call_fn(M['clone'], [merged])), merged)
        # start_with reaches every component
        src = Agg('S2', [Sc(ty, v) for (nm, ty), v in zip(api.target_fields, ovv)])
        m.call_fn(M['start_with'], [merged, m.alloc(src)])
        singles = []
        for c in comps:
            r = m.alloc(clone(c)); m.call_fn(api.start_with, [r, m.alloc(clone(src))]); singles.append(r)
        mv = m.load(merged)
        out['start_with_all'] = all(struct_eq(m, Ref(merged.c, merged.k, (('f', 0), ('i', k))), singles[k]) for k in range(n))
        # update == components applied in order
        ta, s0 = mk_target(api, 's0'); tb = clone(ta)
        ga, gb = m.alloc(ta), m.alloc(tb)
        m.call_fn(M['update'], [merged, ga, Sc('f32', time_v)])
        for r in singles:
            m.call_fn(api.update, [r, gb, Sc('f32', time_v)])
        out['merged'] = m.load(ga); out['seq'] = m.load(gb)
        # disjoint components in the other order
        if n == 2 and shape in (((1, 0), (0, 1)), ((0, 1), (1, 0))):
            sw = m.alloc(m.call_fn(M['of'], [Agg('[]', [clone(m.load(singles[1])), clone(m.load(singles[0]))])]))
            tc = clone(ta); gc = m.alloc(tc)
            m.call_fn(M['update'], [sw, gc, Sc('f32', time_v)])
            out['swapped'] = m.load(gc)
        # wrapping a single timeline changes nothing
        if n == 1:
            w = m.alloc(m.call_fn(from_fn, [clone(m.load(singles[0]))]))
            td = clone(ta); gd = m.alloc(td)
            m.call_fn(M['update'], [w, gd, Sc('f32', time_v)])
            out['wrapped'] = m.load(gd)
            out['wrapped_meta'] = [m.call_fn(M[k], [w]) for k in ('delay', 'duration', 'repeat', 'cycle_duration')]
            out['single_meta'] = [m.call_fn(api.meta[k], [singles[0]]) for k in ('delay', 'duration', 'repeat', 'cycle_duration')]
        return out

    rs = m.explore(h)
    res = new_result(shape)
    from mirsym.models import eq_values
    for r in rs:
        if r.outcome == 'infeasible': continue
        if r.outcome == 'panic': continue            # overflow panics of Repeat::Times arithmetic etc. are C20
        if r.outcome != 'ok':
            res['problems'].append(f'{r.outcome}: {r.msg}'); continue
        o = r.value
        res['obligations'] += 1
        fails = [k for k in ('clone_same', 'start_with_all') if not o[k]]
        bad = []
        bad += [x.t != y.t for x, y in zip(o['merged'].f, o['seq'].f)]
        if 'swapped' in o: bad += [x.t != y.t for x, y in zip(o['merged'].f, o['swapped'].f)]
        if 'wrapped' in o:
            bad += [x.t != y.t for x, y in zip(o['merged'].f, o['wrapped'].f)]
            def same(x, y):
                if isinstance(x, Sc): return x.t == y.t
                if isinstance(x, En):
                    dx = x.d if not isinstance(x.d, int) else z3.BitVecVal(x.d, 64); dy = y.d if not isinstance(y.d, int) else z3.BitVecVal(y.d, 64)
                    cs = [dx == dy]
                    for kk in set(x.p) & set(y.p):
                        cs += [z3.Implies(dx == z3.BitVecVal(kk, 64), same(u, v)) for u, v in zip(x.p[kk], y.p[kk])]
                    return z3.And(cs)
                return z3.BoolVal(True)
            for x, y in zip(o['wrapped_meta'], o['single_meta']):
                bad.append(z3.Not(same(x, y)))
        # aggregates
        if n == 0:
            bad += [z3.Not(z3.fpIsZero(o['delay'].t)), z3.Not(z3.fpIsZero(o['duration'].t))]
            if not (isinstance(o['repeat'].d, int) and o['repeat'].d == 0): fails.append('empty repeat != None')
            if not (isinstance(o['cycle'].d, int) and o['cycle'].d == 0): fails.append('empty cycle_duration != None')
        else:
            dl = [t.delay for t in tms]
            def total(t, ordinal):
                return z3.fpAdd(RNE, t.delay, z3.fpMul(RNE, t.dur, z3.fpUnsignedToFP(RNE, z3.ZeroExt(32, ordinal) + z3.BitVecVal(1, 64), F32)))
            # (one arm per repeat variant, written with the same constructors as the code's term so that sub-terms are shared)
            durs = [z3.If(t.rd == 2, z3.fpPlusInfinity(F32), z3.If(t.rd == 0, total(t, z3.BitVecVal(0, 32)), total(t, t.n))) for t in tms]
            mn = dl[0]; mx = durs[0]
            for x in dl[1:]: mn = z3.If(z3.fpLT(x, mn), x, mn)
            for x in durs[1:]: mx = z3.If(z3.fpGT(x, mx), x, mx)
            bad.append(z3.Not(z3.Or(o['delay'].t == mn, z3.fpEQ(o['delay'].t, mn))))
            bad.append(z3.Not(z3.Or(o['duration'].t == mx, z3.fpEQ(o['duration'].t, mx))))
            ords = [repeat_ordinal(t.rd, t.n) for t in tms]
            mo = ords[0]
            for x in ords[1:]: mo = z3.If(z3.UGT(x, mo), x, mo)
            rep = o['repeat']
            rd = rep.d if not isinstance(rep.d, int) else z3.BitVecVal(rep.d, 64)
            rn = rep.p[1][0].t if 1 in rep.p and rep.p[1] else z3.BitVecVal(0, 32)
            bad.append(repeat_ordinal(rd, rn) != mo)
            cyc = o['cycle']
            cd = cyc.d if not isinstance(cyc.d, int) else z3.BitVecVal(cyc.d, 64)
            alleq = z3.And([z3.fpEQ(tms[0].dur, t.dur) for t in tms[1:]]) if n > 1 else z3.BoolVal(True)
            bad.append((cd == 1) != alleq)
            if 1 in cyc.p and cyc.p[1]:
                bad.append(z3.And(cd == 1, z3.Not(z3.fpEQ(cyc.p[1][0].t, tms[0].dur))))
        if fails:
            res['sat'].append(dict(kind='structural', fails=fails)); continue
        st, model = decide(list(r.pc) + [z3.Or(bad)])
        if st == 'unsat': res['discharged'] += 1
        elif st == 'sat':
            vs = [x for t in tms for x in (t.delay, t.dur, t.rd, t.n, t.reverse)] + pos + [time_v]
            res['sat'].append(model_values(model, vs))
        else: res['problems'].append('solver unknown')
        if res['sample'] is None:
            res['sample'] = f'delay={str(o["delay"].t)[:80]} duration={str(o["duration"].t)[:80]}'
    return close_result(res, m, rs)


def confirm(check, r):
    kind, masks = r['shape']
    mvs = [x for x in r['sat'] if x][:3]
    if not mvs: return False
    # native realisation: component k is a real derive timeline animating the masked fields with the model's timing; besides the
    # solver's own timings, staggered delays are tried (a start value must reach every component, whatever its delay)
    cases = []
    for mv in mvs:
        for variant in ('model', 'staggered'):
            comps = []
            for k in range(len(masks)):
                rd = mv.get(f'rd_{k}', 0); nn = mv.get(f'n_{k}', 0)
                cyc = bits2f32(mv.get(f'cycle_{k}', f32bits(1.0))) if kind == 'abs' else bits2f32(mv.get(f'dur_{k}', f32bits(1.0)))
                if not (cyc > 0 and cyc < 1e6): cyc = 1.0 + k
                dly = bits2f32(mv.get(f'delay_{k}', 0))
                if not (0 <= dly < 1e6): dly = 0.0
                if variant == 'staggered': dly = 1.5 * k; cyc = 2.0 + k
                comps.append('%08x;%08x;%s;false;%d%d' % (f32bits(cyc), f32bits(dly), 'none' if rd == 0 else ('inf' if rd == 2 else str(nn)), masks[k][0], masks[k][1]))
            cases += [{'kind': 'merged', 'comps': comps, 'time': '%08x' % f32bits(t)} for t in (0.4, 1.7, 3.1)]
    for case, nat in zip(cases, run_replay(cases, 'dev', 'replay_tl')):
        if nat.get('mismatch'):
            check.report_violation(f'n{len(masks)}', None, f'components {masks}: {nat["detail"]}', case); return True
    check.inconclusive.append(f'C12 counterexample for {r["shape"]} ({str(mvs[0])[:200]}) did not reproduce natively')
    return False


def main(tier):
    check, results, words, rule = generic_main('C12', tier, shapes_for(tier), run_shape, confirm,
        'merged.update == component updates in order; disjoint components commute; start_with reaches every component; clone is the same value; delay = min, duration = max (inf if any), repeat = max (by ordinal), cycle_duration = Some(c) iff all agree; empty list: 0, 0, None, None; MergedTimeline::from(t) behaves like t',
        'one obligation per (component list shape, execution path); 0..3 real derive timelines with independent symbolic timing and overlapping / disjoint property sets',
        ['valid timing for every component (finite delay >= 0, duration > 0: no NaN, so the partial_cmp tie-break is unreachable)', 'repeat compared by ordinal: Times(u32::MAX) and Infinite rank equal in Repeat\'s ordering'])
    return finish_shapes(check, results, rule, words)


if __name__ == '__main__':
    sys.exit(main(sys.argv[1] if len(sys.argv) > 1 else 'quick'))
