"""Composition harness for C04 (and the kernel lemma it leans on): the REAL MappedTimelineAnimator MIR driving REAL
derive(Animate) timelines (S1Timeline built through the real builder, MergedTimeline::{start_with, update}, prepare_frame,
SubTimeline::*), so that the no-jump claim does not rest on the abstract-timeline contract L-tl alone.

Only the scalar time-scale kernel is abstracted, as a FUNCTION of (time-scale configuration, time):
    get_position(ts, t) = (TAG, POS, REP, REV)(ts.delay, ts.duration, ts.repeat, ts.reverse, t)
constrained by instances of the contract proved on the real TimeScale MIR (C03 and the lemma obligation below):
    NotStarted <=> t < delay;   Active => 0 <= p <= 1;   t == delay (t not -0.0) => Active(+0.0, not repeating, not reversing).
Being a function, equal times give equal positions (resume at the frozen time shows the frozen values)."""
from structural import *
import structural
import animator as A
import multiprocessing as mp

BV8 = z3.BitVecSort(8)
_SIG = [F32, F32, z3.BitVecSort(64), z3.BitVecSort(32), z3.BoolSort(), F32]
TSP_TAG = z3.Function('TSP_TAG', *_SIG, BV8)
TSP_POS = z3.Function('TSP_POS', *_SIG, F32)
TSP_REP = z3.Function('TSP_REP', *_SIG, z3.BoolSort())
TSP_REV = z3.Function('TSP_REV', *_SIG, z3.BoolSort())


class FnPosition:
    def __init__(self):
        self.apps = []

    def handler(self, m, callee, args):
        ts = m.load(args[0]); t = args[1].t
        delay, dur, rep, reverse = ts.f[0].t, ts.f[1].t, ts.f[2], ts.f[3].t
        rd = rep.d if not isinstance(rep.d, int) else z3.BitVecVal(rep.d, 64)
        n = rep.p[1][0].t if 1 in rep.p and rep.p[1] else z3.BitVecVal(0, 32)
        key = (delay, dur, rd, n, reverse, t)
        tag, p, r1, r2 = TSP_TAG(*key), TSP_POS(*key), TSP_REP(*key), TSP_REV(*key)
        self.apps.append((key, tag, p, r1, r2))
        for c in self.contract(key, tag, p, r1, r2): m.assume(c)
        k = m.choose([tag == 0, tag == 1, tag == 2])
        if k == 0:
            return En('TimeScalePosition', 0, {0: []})
        if k == 1:
            return En('TimeScalePosition', 1, {1: [Sc('f32', p), Agg('TimeScaleLoopState', [Sc('bool', r1), Sc('bool', r2)])]})
        return En('TimeScalePosition', 2, {2: [Sc('f32', z3.If(reverse, ZERO, ONE))]})

    @staticmethod
    def contract(key, tag, p, r1, r2):
        delay, dur, rd, n, reverse, t = key
        return [z3.ULE(tag, 2), (tag == 0) == z3.fpLT(t, delay),
                z3.Implies(tag == 1, z3.And(z3.fpGEQ(p, ZERO), z3.fpLEQ(p, ONE))),
                z3.Implies(z3.And(z3.fpEQ(t, delay), z3.Not(z3.fpIsNegative(t))), z3.And(tag == 1, p == ZERO, z3.Not(r1), z3.Not(r2)))]


_G = {}


def _init():
    prog, enums, keys = load_program(['mina_core'], SUBJECTS)
    _G.update(prog=prog, enums=enums, keys=keys)


def kf_shape(api, suffix, N):
    pos = [z3.FP(f'kp{suffix}_{i}', F32) for i in range(N)]
    vals = [z3.FP(f'kv{suffix}_{i}', F32) for i in range(N)]
    return pos, vals


def run_config(args):
    try:
        return _run_config(args)
    except PathEnd:
        raise
    except Exception:
        import traceback
        return dict(config=args[0], histories=0, obligations=0, discharged=0, sat=[], problems=['worker exception: ' + traceback.format_exc()[-600:]], paths=0, fns={}, models=[], sample=None)


def _run_config(args):
    (config, ops), tier = args
    prog, enums = _G['prog'], _G['enums']
    api = Api(prog, 'S1')
    fp = FnPosition()
    m = machine_for(prog, enums, abstract_pos=fp)
    m.enum_map_len = A.NSTATES; m.duration_mode = 'uf'
    anim = {k: [f for f in prog.by_last[k] if f.impl_self == 'MappedTimelineAnimator'][0] for k in ('new', 'advance', 'set_state', 'is_ended')}
    res = dict(config=config, ops=ops, histories=1, obligations=0, discharged=0, sat=[], problems=[], paths=0, fns={}, models=[], sample=None)
    tms = {}; shapes = {}
    for s, nkf in enumerate(config):
        if nkf:
            tms[s] = Timing(f'_s{s}'); shapes[s] = kf_shape(api, f'_s{s}', nkf)
    dts = [z3.FP(f'dt{i}', F32) for i in range(len(ops))]
    init_v = z3.FP('init_v', F32)

    def h(m):
        fp.apps = []
        slots = []
        for s, nkf in enumerate(config):
            if not nkf:
                slots.append(none()); continue
            pos, vals = shapes[s]
            m.assume(tms[s].valid())
            for i in range(nkf):
                m.assume(z3.And(z3.fpGEQ(pos[i], ZERO), z3.fpLEQ(pos[i], ONE), z3.Not(z3.fpIsNegative(pos[i])), fin(vals[i])))
                if i: m.assume(z3.fpLT(pos[i - 1], pos[i]))
            kfs = [{'pos': pos[i], 'vals': {'v': vals[i]}, 'easing': tag_easing(10 * s + i + 1) if i == 0 else None} for i in range(nkf)]
            tl = build_timeline(m, api, kfs, tms[s], tag_easing(0), memo_key=f'tl{s}')
            slots.append(some(Agg('MergedTimeline', [VecObj([clone(tl)])])))
        while len(slots) < A.NSTATES: slots.append(none())
        emap = Agg('EnumMap', [VecObj(slots)])
        a = m.call_fn(anim['new'], [emap, En('St', 0, {0: []}), Agg('S1', [Sc('f32', init_v)])])
        aref = m.alloc(a)
        recs = [('new', clone(m.load(aref)))]
        for i, op in enumerate(ops):
            if op[0] == 'adv':
                m.assume(z3.And(fin(dts[i]), z3.fpGEQ(dts[i], ZERO), z3.fpLT(dts[i], fpv32(2.0 ** 40))))
                m.call_fn(anim['advance'], [aref, Sc('f32', dts[i])])
            else:
                m.call_fn(anim['set_state'], [aref, m.alloc(En('St', op[1], {op[1]: []}))])
            recs.append((op, clone(m.load(aref))))
        return recs

    rs = m.explore(h, time_budget=900)
    res['paths'] = len(rs)
    for r in rs:
        if r.outcome == 'infeasible': continue
        if r.outcome == 'panic': continue
        if r.outcome != 'ok':
            res['problems'].append(f'{r.outcome}: {r.msg}'[:300]); continue
        recs = r.value
        for i in range(1, len(recs)):
            op = recs[i][0]
            if op[0] != 'set': continue
            before, after = recs[i - 1][1], recs[i][1]
            res['obligations'] += 1
            vb, va = before.f[A.F_VALUES].f[0].t, after.f[A.F_VALUES].f[0].t
            if vb.eq(va):
                res['discharged'] += 1; continue
            st, model = decide_with_contracts(list(r.pc) + [vb != va])
            if st == 'unsat': res['discharged'] += 1
            elif st == 'sat':
                mv = {}
                for s in tms:
                    pos, vals = shapes[s]
                    mv[s] = dict(delay=c18num(model, tms[s].delay), dur=c18num(model, tms[s].dur), rd=model.eval(tms[s].rd, model_completion=True).as_long(),
                                 n=model.eval(tms[s].n, model_completion=True).as_long(), reverse=z3.is_true(model.eval(tms[s].reverse, model_completion=True)),
                                 pos=[c18num(model, p) for p in pos], vals=[c18num(model, v) for v in vals])
                res['sat'].append(dict(step=i, kind='jump', before=str(vb)[:100], after=str(va)[:100], timelines=mv,
                                       dts=[c18num(model, d) for d in dts], init=c18num(model, init_v)))
            else: res['problems'].append('solver unknown')
        if res['sample'] is None:
            res['sample'] = f'{config} {ops}: values after the last operation = {str(recs[-1][1].f[A.F_VALUES].f[0].t)[:140]}'
    res['fns'] = {k: f.text_hash for k, f in m.fns_used.items()}; res['models'] = sorted(m.models_used)
    return res


def c18num(model, v):
    import c18
    x = c18.fpnum(model.eval(v, model_completion=True))
    return x


def jobs_for(tier):
    """(per-state keyframe counts, operation shape): states 0 and 2 animated (one keyframe each: lead-in from the blended start,
    held to the end; thorough: also two keyframes), state 1 without a timeline"""
    configs = [(1, 0, 1)] if tier == 'quick' else [(1, 0, 1), (2, 0, 1), (1, 0, 2), (1, 1, 1)]
    depth = 3 if tier == 'quick' else 4
    out = []
    for cfg in configs:
        for ops in A.op_shapes(3, depth):
            out.append((cfg, ops))
    return out


def kernel_lemma(check, tier):
    """on the real MIR of TimeScale::get_position: at t == delay the position is Active(+0.0, not repeating, not reversing), for
    every valid configuration (the instance of L-pos that the composition harness assumes beyond C03's Q2 / range clauses)"""
    import kernel_timescale as K
    return K


def concrete_part(check, tier):
    _init()
    jobs = jobs_for(tier)
    with mp.Pool(int(os.environ.get('VERIF_WORKERS', '16')), initializer=_init) as pool:
        results = pool.map(run_config, [(j, tier) for j in jobs], chunksize=1)
    nob = sum(r['obligations'] for r in results); ndis = sum(r['discharged'] for r in results)
    for r in results:
        check.functions.update({re.sub(r'<impl at [^>]*?([\w.]+:\d+):\d+: \d+:\d+>', r'<impl@\1>', k): v for k, v in r['fns'].items()})
        check.trusted |= set(r['models'])
        for p in r['problems'][:1]: check.inconclusive.append(f'concrete {r["config"]} {r.get("ops")}: {p}')
    sats = [(r, s) for r in results for s in r['sat']]
    return results, nob, ndis, sats


def replay_case(r, s):
    """native realisation of a composition counterexample: the solver's timings / keyframes / steps"""
    def num(x, d):
        return x if isinstance(x, float) and x == x and abs(x) < 1e12 else d
    specs = []
    config = []
    for st, nkf in enumerate(r['config']):
        if not nkf: config.append('none'); continue
        t = s['timelines'][st] if st in s['timelines'] else s['timelines'][str(st)]
        rep = {0: 'none', 2: 'inf'}.get(t['rd'], str(t['n']))
        specs.append(f"{num(t['dur'], 1.0)};{num(t['delay'], 0.0)};{rep};{'true' if t['reverse'] else 'false'};{num(t['pos'][-1], 1.0)};{num(t['vals'][-1], 5.0)}")
        config.append('single')
    it = iter(s['dts'])
    ops = []
    for i, o in enumerate(r['ops']):
        ops.append('adv:%s' % num(s['dts'][i], 1.5) if o[0] == 'adv' else 'set:%d' % o[1])
    return {'kind': 'animator_history', 'config': config, 'ops': ops, 'specs': '|'.join(specs)}
