"""C03 — delay/repeat/reverse map time to a bounded, periodic, mirrored position."""
import numpy as np
from common import *
from kernel_timescale import *


def native_outputs(case, profile='dev'):
    return run_replay([case], profile)[0]


def f32(x): return np.float32(x)


def ref_position(dur, delay, rep, reverse, t):
    """reference model written from the property text (numpy float32, exact fmod)"""
    dur, delay, t = f32(dur), f32(delay), f32(t)
    tm = f32(t - delay)
    if tm < 0: return (0, None)
    cycles = 1 if rep == 'none' else (None if rep == 'inf' else int(rep) + 1)
    if cycles is not None and tm > f32(dur * f32(cycles)):
        return (2, f32(0.0) if reverse else f32(1.0))
    if rep == 'none':
        c = tm
    else:
        r = f32(np.fmod(tm, dur))
        c = dur if (r == 0 and tm >= dur) else r
    ratio = f32(c / dur)
    if reverse:
        p = f32(f32(f32(1.0) - ratio) * f32(2.0)) if ratio > f32(0.5) else f32(ratio * f32(2.0))
    else:
        p = ratio
    return (1, p)


def has_op(e, names, seen=None):
    seen = seen if seen is not None else set()
    if e.get_id() in seen: return False
    seen.add(e.get_id())
    if z3.is_app(e) and e.decl().name() in names: return True
    return any(has_op(c, names, seen) for c in e.children())


def build(check, prog, enums, tier, profile='dev'):
    S = TSummary(prog, enums, check=check, overflow_checks=(profile == 'dev'), suffix=('' if profile == 'dev' else '_r'))
    S.profile = profile
    P = '' if profile == 'dev' else '[release]'
    pre = S.valid() + [z3.Not(S.panic)]
    bound = S.quick_bound(12) if tier == 'quick' else []
    if bound:
        check.assumptions.append('quick tier: low 12 mantissa bits of t, delay, duration are zero (every exponent and sign still covered)')
    tm = S.tm()
    out_tag, out_pos = z3.BitVec('out_tag', 8), z3.FP('out_pos', F32)
    outs = [out_tag == S.tag, z3.Or(out_pos == S.pos, z3.And(z3.fpIsNaN(out_pos), z3.fpIsNaN(S.pos)))]
    mv = S.inputs + [out_tag, out_pos]
    to = 110 if tier == 'quick' else 1500

    def ob(name, neg, words, extra=(), timeout=None, solvers=('cvc5', 'z3'), use_bound=True, key=None):
        o = Obligation(f'C03{P}.{name}', pre + list(extra) + (bound if use_bound else []) + outs + [neg], mv,
                       timeout=timeout or to, solvers=solvers, words=words, finding_key=key)
        o.S = S
        return check.add(o)

    ob('Q1-range', z3.And(S.tag == 1, z3.Not(z3.And(z3.fpGEQ(S.pos, ZERO), z3.fpLEQ(S.pos, ONE)))),
       'Active(p) => 0 <= p <= 1 for every finite t, delay>=0, duration>0, any repeat/reverse')
    ob('Q2-notstarted-iff', (S.tag == 0) != z3.fpLT(S.t, S.delay), 'NotStarted <=> t < delay')
    # Q3 is decided path by path; conjuncts of the path condition that mention fp.rem / fp.div are irrelevant to
    # the end test and are dropped (dropping hypotheses is sound for an unsat verdict; a sat answer is re-checked
    # with the full path condition)
    ended_ref = z3.And(S.rd != 2, z3.fpGT(tm, S.total_active()))
    for k, r in enumerate(S.pos_paths):
        if r.outcome != 'ok': continue
        is_ended = (r.value.d == 2)
        pcf = [c for c in r.pc if not has_op(c, ('fp.rem', 'fp.div'))]
        o = check.add(Obligation(f'C03{P}.Q3-terminal-iff[path{k}]', S.valid() + bound + pcf + [ended_ref != z3.BoolVal(is_ended)], mv,
                                 timeout=to, words='Ended <=> repeat finite and (t-delay) > cycle*(repeats+1), repeats+1 computed without wrap-around (one obligation per execution path of get_position)'))
        o.S = S; o.full = S.valid() + bound + list(r.pc) + outs + [ended_ref != z3.BoolVal(is_ended)]
        # the same obligation instantiated at the boundary repeat counts (cheap, constant-folded multiplier)
        for nv in (0xFFFFFFFF, 0xFFFFFFFE, 0):
            o = check.add(Obligation(f'C03{P}.Q3-terminal-iff[path{k},n={nv}]', S.valid() + list(r.pc) + outs + [S.n == z3.BitVecVal(nv, 32), S.rd == 1, ended_ref != z3.BoolVal(is_ended)], mv,
                                     timeout=to, words=f'Q3 at Repeat::Times({nv}), all f32 t/delay/duration (no mantissa bound)'))
            o.S = S
    ob('Q3b-terminal-value', z3.And(S.tag == 2, z3.Not(z3.fpEQ(S.pos, z3.If(S.rev_in, ZERO, ONE)))),
       'Ended(p) => p = 1 (0 when reversing)')
    if profile != 'dev':
        # release profile (wrapping arithmetic, no overflow panics): only the clauses that involve the repeat count
        refdur = z3.If(S.rd == 2, z3.fpPlusInfinity(F32), z3.fpAdd(RNE, S.delay, S.total_active()))
        o = check.add(Obligation('C03[release].Q7-duration-formula', S.valid() + [z3.Not(z3.Or(S.duration == refdur, z3.fpEQ(S.duration, refdur)))], S.inputs,
                                 timeout=to, words='release profile: duration() = delay + cycle*(repeats+1), repeats+1 not wrapped'))
        o.S = S
        return S
    # Q4 linear rise / symmetric fall: reference from the property text
    r = S.m.fmod(tm, S.dur)
    cyc = z3.If(S.rd == 0, tm, z3.If(z3.And(z3.fpEQ(r, ZERO), z3.fpGEQ(tm, S.dur)), S.dur, r))
    ratio = z3.fpDiv(RNE, cyc, S.dur)
    refp = z3.If(S.rev_in, z3.If(z3.fpGT(ratio, HALF), z3.fpMul(RNE, z3.fpSub(RNE, ONE, ratio), TWO), z3.fpMul(RNE, ratio, TWO)), ratio)
    ob('Q4-linear-rise-fall', z3.And(S.tag == 1, z3.Not(z3.fpEQ(S.pos, refp))),
       'Active position = cycle-time/cycle (x2 rising to 1 at mid-cycle then 2(1-x) falling when reversing), cycle-time = exact fmod with hold at cycle end')
    # Q6 mirror (reversing, inside one cycle): times c and d-c give the same position up to 4 ulp of 1.0
    c1 = z3.FP('c1', F32); c2 = z3.fpSub(RNE, S.dur, c1)
    def revpos(c):
        x = z3.fpDiv(RNE, c, S.dur)
        return z3.If(z3.fpGT(x, HALF), z3.fpMul(RNE, z3.fpSub(RNE, ONE, x), TWO), z3.fpMul(RNE, x, TWO))
    # tie the formula to the implementation: Q4 proves impl == refp; here refp's reversing arm is analysed
    tol = fpv32(2.0 ** -22)
    d12 = z3.fpSub(RNE, revpos(c1), revpos(c2))
    if tier != "quick": check.add(Obligation("C03.Q6-mirror", [fin(S.dur), fin(c1), z3.fpGT(S.dur, ZERO), z3.fpGEQ(c1, ZERO), z3.fpLEQ(c1, S.dur),
                                           z3.fpEQ(z3.fpAdd(RNE, c2, c1), S.dur)] + (low_mantissa_zero(S.dur, 12, 'dur')[0] + low_mantissa_zero(c1, 12, 'c1')[0] if tier == 'quick' else []) +
                                          [z3.Not(z3.fpLEQ(z3.fpAbs(d12), tol))], [S.dur, c1], timeout=to,
                            words='reversing: cycle times c and duration-c (exactly representable) give positions within 2^-22 (mirror symmetry of the Q4 reference, which Q4 ties to the code)'))
    # Q7 metadata
    refdur = z3.If(S.rd == 2, z3.fpPlusInfinity(F32), z3.fpAdd(RNE, S.delay, S.total_active()))
    pre_d = S.valid() + [z3.Not(S.dur_panic)]
    o = check.add(Obligation('C03.Q7-duration-formula', pre_d + [z3.Not(z3.Or(S.duration == refdur, z3.fpEQ(S.duration, refdur)))], S.inputs,
                             timeout=to, words='duration() = delay + cycle*(repeats+1) (f32, repeats+1 not wrapped); +inf for Infinite'))
    o.S = S
    o = check.add(Obligation('C03.Q7-accessors', pre_d + [z3.Not(z3.And(S.acc_delay == S.delay, S.acc_cycle == S.dur, S.acc_rep_d == S.rd,
                                                                         z3.Implies(S.rd == 1, S.acc_rep_n == S.n)))], S.inputs, timeout=to,
                             words='get_delay/get_cycle_duration/get_repeat return the configured values'))
    o.S = S
    # Ended => t >= duration(): Q3 gives Ended => fl(t-delay) > T, Q7 gives duration() = fl(delay+T); the remaining
    # step is a fact about IEEE add/sub for ANY finite T >= 0, proved as a stand-alone lemma:
    T = z3.FP('T', F32)
    lem = [fin(S.t), fin(S.delay), fin(T), z3.fpGEQ(S.delay, ZERO), z3.fpGEQ(S.t, ZERO), z3.fpGEQ(T, ZERO),
           z3.fpGT(z3.fpSub(RNE, S.t, S.delay), T), z3.Not(z3.fpGEQ(S.t, z3.fpAdd(RNE, S.delay, T)))]
    check.add(Obligation('C03.Q7-ended-implies-t-ge-duration', lem, [S.t, S.delay, T], timeout=to,
                         words='for all finite t, delay, T >= 0: fl(t-delay) > T  =>  t >= fl(delay+T); with Q3 and Q7-duration-formula: Ended => t >= duration()'))
    return S


def periodicity(check, prog, enums, tier):
    """Q5(a): beyond the first cycle the position depends on time only through fmod(t-delay, cycle):
    `%` is left uninterpreted (FMOD) with the axiom 0 <= r < cycle."""
    A = TSummary(prog, enums, suffix='_a', float_rem='uf', check=check)
    B = TSummary(prog, enums, suffix='_b', float_rem='uf', check=check)
    FM = z3.Function('FMOD8', F32, F32, F32)
    tma, tmb = A.tm(), B.tm()
    cs = A.valid() + [fin(B.t), z3.fpGEQ(B.t, ZERO), B.delay == A.delay, B.dur == A.dur, B.rd == A.rd, B.n == A.n, B.rev_in == A.rev_in,
                      z3.UGE(A.rd, 1), z3.Not(A.panic), z3.Not(B.panic), A.tag == 1, B.tag == 1,
                      z3.fpGT(tma, A.dur), z3.fpGT(tmb, A.dur),
                      z3.fpEQ(FM(tma, A.dur), FM(tmb, A.dur)), z3.fpGEQ(FM(tma, A.dur), ZERO), z3.fpLT(FM(tma, A.dur), A.dur),
                      z3.Not(z3.And(z3.fpEQ(A.pos, B.pos), A.rev == B.rev, A.rep, B.rep))]
    bound = []
    if tier == 'quick':
        for x in (A.delay, A.dur, A.t, B.t):
            bound += low_mantissa_zero(x, 12, str(x))[0]
    check.add(Obligation('C03.Q5a-periodicity-noninterference', cs + bound, A.inputs + [B.t], timeout=(110 if tier == 'quick' else 1500),
                         solvers=('z3', 'cvc5'),
                         words='two times beyond the first cycle with equal remainder modulo the cycle duration get equal position and flags (the operand of % is the field get_cycle_duration returns)'))
    # Q5(b): structural — the second operand of % is the cycle-duration field: with FMOD uninterpreted the position
    # must change if FMOD(tm, x) is queried with x != cycle duration; checked as: every FMOD application in pos has A.dur as 2nd arg
    apps = []
    def walk(e, seen):
        if e.get_id() in seen: return
        seen.add(e.get_id())
        if z3.is_app(e) and e.decl().name().startswith('FMOD'):
            apps.append(e)
        for c in e.children(): walk(c, seen)
    walk(A.pos, set())
    okb = bool(apps) and all(z3.eq(a.arg(1), A.dur) and z3.eq(z3.simplify(a.arg(0)), z3.simplify(tma)) for a in apps)
    check.info['Q5b_fmod_operands_are_(t-delay, cycle_duration)'] = okb
    if not okb:
        check.inconclusive.append('Q5b: `%` in get_position is not applied to (t - delay, cycle duration)')


def confirm(check, ob, res, tier):
    """replay a sat model natively; report only what reproduces"""
    S = ob.S
    case = S.case(res.model)
    outs = {}
    for prof in ('dev', 'release'):
        outs[prof] = native_outputs(case, prof)
    nat = outs[getattr(S, 'profile', 'dev')]
    dur, delay, t = bits2f32(int(case['dur'], 16)), bits2f32(int(case['delay'], 16)), bits2f32(int(case['t'], 16))
    desc_in = f"duration={dur!r} delay={delay!r} repeat={case['repeat']} reverse={case['reverse']} t={t!r}"
    name = ob.name
    viol = None
    if nat.get('panic') or outs['release'].get('panic'):
        viol = f'panic natively ({nat.get("msg", "")}) for {desc_in}'
    else:
        tag, pos = nat['tag'], bits2f32(nat['pos'])
        rt, rp = ref_position(dur, delay, case['repeat'], case['reverse'], t)
        name = re.sub(r'\[path[^\]]*\]$', '', name)
        if name.endswith('Q1-range') and tag == 1 and not (0.0 <= pos <= 1.0):
            viol = f'position {pos!r} outside [0,1] for {desc_in}'
        elif name.endswith('Q2-notstarted-iff') and ((tag == 0) != (t < delay)):
            viol = f'NotStarted={tag == 0} but t<delay={t < delay} for {desc_in}'
        elif name.endswith(('Q3-terminal-iff', 'Q3b-terminal-value', 'Q4-linear-rise-fall')) and (tag != rt or (rp is not None and f32bits(float(rp)) != nat['pos'] and not (rp == 0 and pos == 0))):
            viol = f'native {("NotStarted", "Active", "Ended")[tag]}({pos!r}) != reference {("NotStarted", "Active", "Ended")[rt]}({rp!r}) for {desc_in}'
        elif name.endswith('Q7-ended-implies-t-ge-duration') and tag == 2 and not (t >= bits2f32(nat['duration'])):
            viol = f'Ended at t={t!r} < duration()={bits2f32(nat["duration"])!r} for {desc_in}'
        elif name.endswith('Q7-duration-formula'):
            cycles = 1 if case['repeat'] == 'none' else (None if case['repeat'] == 'inf' else int(case['repeat']) + 1)
            want = float('inf') if cycles is None else float(np.float32(delay) + np.float32(np.float32(dur) * np.float32(cycles)))
            got = bits2f32(nat['duration'])
            if got != want: viol = f'duration()={got!r} but delay+cycle*(repeats+1)={want!r} for {desc_in}'
        # release/dev divergence is a violation of C20 but also shows here
        if viol is None and outs['release'] != outs['dev']:
            viol = f'dev/release differ: {nat} vs {outs["release"]} for {desc_in}'
    # engine fidelity: the model's predicted outputs must match the native ones
    pred_tag = res.model.get('out_tag'); pred_pos = res.model.get('out_pos')
    if viol is None:
        check.inconclusive.append(f'{name}: solver model did not reproduce natively ({desc_in}; native={nat}; predicted tag={pred_tag} pos={pred_pos})')
        return
    check.report_violation(name, ob.finding_key, viol, case)


def validate_translator(check, prog, enums):
    """Serval-style: run the executor on concrete inputs (the repo's own test vectors + boundaries + seeded random)
    and compare bit-for-bit with the native build."""
    rng = check.rng
    vecs = []
    # vectors of core/src/time_scale.rs tests
    for (dur, delay, rep, rev, times) in [
        (20.0, 0.0, 'none', False, [-1.0, 0.0, 5.0, 10.0, 20.0, 20.5, 100.0]),
        (10.0, 2.0, 'none', False, [0.0, 1.999, 2.0, 3.0, 7.0, 12.0, 12.01]),
        (10.0, 0.0, '2', False, [0.0, 5.0, 10.0, 15.0, 20.0, 25.0, 30.0, 30.1]),
        (10.0, 0.0, 'inf', False, [0.0, 5.0, 10.0, 15.0, 20.0, 95.0, 1e9]),
        (10.0, 0.0, 'none', True, [0.0, 2.5, 5.0, 7.5, 10.0, 11.0]),
        (10.0, 0.0, '3', True, [0.0, 2.5, 5.0, 7.5, 10.0, 12.5, 40.0, 40.5]),
        (1.0, 0.5, '4294967295', False, [0.0, 0.75, 10.0]),
    ]:
        for t in times:
            vecs.append((dur, delay, rep, rev, t))
    for _ in range(60):
        dur = float(np.float32(rng.choice([rng.uniform(0.001, 100), 2.0 ** rng.randint(-20, 20)])))
        delay = float(np.float32(rng.choice([0.0, rng.uniform(0, 10), 2.0 ** rng.randint(-10, 10)])))
        rep = rng.choice(['none', 'inf', str(rng.randint(0, 5)), str(rng.choice([0, 1, 2 ** 31, 2 ** 32 - 2]))])
        k = rng.randint(0, 8)
        t = float(np.float32(rng.choice([delay + dur * k, delay + dur * (k + rng.random()), rng.uniform(0, 1000), delay + dur * (k + 0.5)])))
        vecs.append((dur, delay, rep, rng.random() < 0.5, t))
    cases = [{'kind': 'get_position', 'dur': '%08x' % f32bits(d), 'delay': '%08x' % f32bits(dl), 'repeat': rp, 'reverse': rv,
              't': '%08x' % f32bits(t)} for d, dl, rp, rv, t in vecs]
    nat = run_replay(cases, 'dev')
    m = Machine(prog, enums, feas_timeout_ms=500)
    new = [f for f in prog.by_last['new'] if f.impl_self == 'TimeScale'][0]
    gp = prog.by_last['get_position'][0]; gd = prog.by_last['get_duration'][0]
    mism = 0
    for (d, dl, rp, rv, t), nt in zip(vecs, nat):
        def h(m):
            rep = En('Repeat', 0 if rp == 'none' else (2 if rp == 'inf' else 1), {0: [], 1: [mk_int('u32', int(rp) if rp.isdigit() else 0)], 2: []})
            ts = m.alloc(m.call_fn(new, [Sc('f32', fpv32(d)), Sc('f32', fpv32(dl)), rep, mk_bool(rv)]))
            du = m.call_fn(gd, [ts])
            return Agg(None, [m.call_fn(gp, [ts, Sc('f32', fpv32(t))]), du])
        rs = m.explore(h)
        r = rs[0]
        if len(rs) != 1:
            mism += 1; log('validation: concrete run forked', d, dl, rp, rv, t); continue
        if r.outcome == 'panic':
            if not nt.get('panic'): mism += 1; log('validation mismatch (panic)', d, dl, rp, rv, t, nt)
            continue
        if r.outcome != 'ok' or nt.get('panic'):
            mism += 1; log('validation mismatch', r.outcome, r.msg, nt); continue
        v = r.value.f[0]; tag = v.d
        pos = z3.simplify(v.p[tag][0].t) if tag in (1, 2) else None
        pb = None
        if pos is not None:
            pb = z3.simplify(z3.fpToIEEEBV(pos)).as_long()
        db = z3.simplify(z3.fpToIEEEBV(z3.simplify(r.value.f[1].t))).as_long()
        ok = tag == nt['tag'] and (pb is None or pb == nt['pos']) and db == nt['duration']
        if ok and tag == 1:
            ok = bool(z3.is_true(z3.simplify(v.p[1][1].f[0].t))) == nt['rep'] and bool(z3.is_true(z3.simplify(v.p[1][1].f[1].t))) == nt['rev']
        if not ok:
            mism += 1; log('validation mismatch', (d, dl, rp, rv, t), 'exec', tag, pb, db, 'native', nt)
    check.validation['vectors'] += len(vecs); check.validation['mismatches'] += mism
    if mism:
        check.inconclusive.append(f'translator validation: {mism} of {len(vecs)} concrete vectors disagree with the native build')


def main(tier):
    check = Check('C03', tier, 'proof')
    prog, enums, keys = load_program(['mina_core'])
    check.info['mir_source_hash'] = keys
    validate_translator(check, prog, enums)
    build(check, prog, enums, tier)
    build(check, prog, enums, tier, profile='release')
    periodicity(check, prog, enums, tier)
    check.assumptions += ['valid configuration: finite t >= 0, finite delay >= 0, finite cycle duration > 0',
                          'float `%` is exact C fmod, encoded as fp.rem plus sign fix-up',
                          'Q5a treats `%` as an uninterpreted function with 0 <= r < cycle; the arithmetic fact fmod(x+d,d)=fmod(x,d) for exact x+d is a property of IEEE fmod, not of mina, and is not re-proved']
    check.run()
    # sat on a weakened (hypotheses-dropped) query: decide again with the full path condition
    redo = [ob for ob in check.obligations if ob.result.status == 'sat' and hasattr(ob, 'full')]
    for ob in redo:
        ob.assertions = ob.full; ob.result = None; del ob.full
    if redo: check.run()
    for ob in check.obligations:
        if ob.result.status == 'sat':
            if hasattr(ob, 'S') :
                confirm(check, ob, ob.result, tier)
            else:
                check.inconclusive.append(f'{ob.name}: sat ({ob.result.model})')
    rc = check.finish(rule='one obligation per clause of the property over all f32 inputs within the stated bound; distinct = distinct obligations')
    return rc


if __name__ == '__main__':
    sys.exit(main(sys.argv[1] if len(sys.argv) > 1 else 'quick'))
