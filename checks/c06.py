"""C06 — frame-rate independence: only the accumulated time in a state matters."""
from animator import *
import c04
import multiprocessing as mp
import itertools


def run_config(args):
    try:
        return _run_config(args)
    except PathEnd as e:
        raise
    except Exception as e:
        import traceback
        return dict(config=args[0], histories=0, obligations=0, discharged=0, sat=[], problems=['worker exception: ' + traceback.format_exc()[-400:]], paths=0, panics=0, fns={}, models=[], sample=None)


def _run_config(args):
    config, tier = args
    G = c04._G
    ctx = Ctx(G['prog'], G['enums'])
    m = ctx.machine()
    nstates = 3 if tier == 'quick' else 4
    comp_ids = [k for c in config for k in (c or ())]
    res = dict(config=config, histories=0, obligations=0, discharged=0, sat=[], problems=[], paths=0, panics=0, fns={}, models=[], sample=None)
    pre_depth = 2 if tier == 'quick' else 3
    alphabet = [('adv',)] + [('set', s) for s in range(nstates)]
    prefixes = [()]
    for L in range(1, pre_depth + 1):
        prefixes += list(itertools.product(alphabet, repeat=L))
    D = z3.Function('DUR_FROM_F32', F32, z3.BitVecSort(128)); S = z3.Function('DUR_AS_F32', z3.BitVecSort(128), F32)
    for pre in prefixes:
        if len(res['sat']) + len(res['problems']) >= 16:
            res['truncated'] = True; break          # a flood of counterexamples: enough to report, the rest adds nothing
        for tail in ('split2', 'split3', 'zero', 'zero-mid', 'huge'):
            if tail == 'huge' and len(pre) > 1: continue
            if tail == 'split2' or tail == 'huge': ops = list(pre) + [('adv',), ('adv',)]
            elif tail == 'split3': ops = list(pre) + [('adv',), ('adv',), ('adv',)]
            elif tail == 'zero': ops = list(pre) + [('adv0',)]
            else: ops = list(pre) + [('adv',), ('adv0',), ('adv',)]
            dts = [z3.FP(f'dt{i}', F32) if o[0] != 'adv0' else fpv32(0.0) for i, o in enumerate(ops)]
            rops = [('adv',) if o[0] == 'adv0' else o for o in ops]
            ctx.fapps = []
            def h(m):
                for c in ctx.valid(comp_ids): m.assume(c)
                if tail == 'huge':
                    # steps whose sum saturates the clock: at least one of the two steps is >= 2^64 s (still a finite f32)
                    m.assume(z3.Or(z3.fpGEQ(dts[-1], fpv32(2.0 ** 64)), z3.fpGEQ(dts[-2], fpv32(2.0 ** 64))))
                return run_history(ctx, m, config, rops, dts, bound=(tail != 'huge'))
            rs = m.explore(h)
            res['histories'] += 1; res['paths'] += len(rs)
            for r in rs:
                if r.outcome == 'infeasible': continue
                if r.outcome == 'panic': res['panics'] += 1; continue
                if r.outcome != 'ok': res['problems'].append(f'{ops}: {r.outcome} {r.msg}'); continue
                recs = r.value
                ax = ctx.axioms()
                base = recs[len(pre)][1]            # animator after the prefix
                final = recs[-1][1]
                res['obligations'] += 1
                sol = z3.Solver(); sol.set('timeout', 8000); sol.add(*r.pc); sol.add(*ax)
                n0 = base.f[F_DURATION].f[0].t
                if tail == 'huge':
                    # advance(a + b) with a finite a + b >= 2^64 s saturates the time in state at Duration::MAX (documented on advance);
                    # the split schedule must end at the same instant and show the values of that instant
                    from mirsym.models import DUR_MAX
                    total = z3.BitVecVal(DUR_MAX, 128)
                    cur = base.f[F_STATE].d
                    exp = values_of(base)
                    tls = base.f[F_TIMELINES].f[0].items[cur]
                    if isinstance(tls.d, int) and tls.d == 1:
                        for comp in tls.p[1][0].f[0].items:
                            kk = z3.simplify(comp.f[0].t).as_long()
                            exp = ctx.Fk(kk)(comp.f[1].t, S(total))
                    sol.add(z3.Or(values_of(final) != exp, final.f[F_DURATION].f[0].t != total))
                    c = sol.check()
                elif tail in ('split2', 'split3', 'zero-mid'):
                    # reference: ONE accumulation of the elapsed Durations, then one evaluation at the accumulated time
                    k0 = len(pre)
                    total = n0
                    for i in range(k0, len(ops)):
                        total = total + D(dts[i])
                    ref = RefAnimator.__new__(RefAnimator); ref.ctx = ctx; ref.config = config
                    cur = base.f[F_STATE].d
                    # start values of the current state's components are those of the animator after the prefix
                    exp = values_of(base)
                    tls = base.f[F_TIMELINES].f[0].items[cur]
                    if isinstance(tls.d, int) and tls.d == 1:
                        for comp in tls.p[1][0].f[0].items:
                            kk = z3.simplify(comp.f[0].t).as_long()
                            exp = ctx.Fk(kk)(comp.f[1].t, S(total))
                    diffs = [values_of(final) != exp, final.f[F_DURATION].f[0].t != total]
                    if tail == 'zero-mid':
                        # the zero-length step contributes nothing: from_secs_f32(0) = 0
                        pass
                    sol.add(z3.Or(diffs))
                    c = sol.check()
                else:
                    # advance(0) changes nothing at all
                    same_rest = struct_eq(m, Agg(None, [base.f[F_STATE], base.f[F_PAUSED], base.f[F_TIMELINES]]), Agg(None, [final.f[F_STATE], final.f[F_PAUSED], final.f[F_TIMELINES]]))
                    sol.add(z3.Or(values_of(final) != values_of(base), final.f[F_DURATION].f[0].t != n0))
                    c = sol.check() if same_rest else z3.sat
                if c == z3.unsat: res['discharged'] += 1
                elif c == z3.sat:
                    dtb = None
                    if same_rest_ok(tail, locals()):
                        try:
                            mdl = sol.model()
                            dtb = [z3.simplify(z3.fpToIEEEBV(mdl.eval(d, model_completion=True))).as_long() for d in dts]
                        except Exception:
                            dtb = None
                    res['sat'].append(dict(ops=[list(o) for o in ops], tail=tail, final=str(values_of(final))[:100], dts=dtb))
                else: res['problems'].append(f'{ops}: solver unknown')
                if res['sample'] is None and tail == 'split2':
                    res['sample'] = f'{ops}: final values {str(values_of(final))[:160]}'
    res['fns'] = {k: f.text_hash for k, f in m.fns_used.items()}; res['models'] = sorted(m.models_used)
    return res


def same_rest_ok(tail, loc):
    # a model exists only when the solver was actually asked
    return tail != 'zero' or loc.get('same_rest')


def duration_lemmas(check, tier):
    """L-dur on the exact model of std's Duration::from_secs_f32 (round to nearest nanosecond, ties to even)"""
    from mirsym.models import duration_from_secs_f32, NANOS
    prog, enums = c04._G['prog'], c04._G['enums']
    to = 100 if tier == 'quick' else 1500
    # from_secs_f32(0) = ZERO and grid additivity: a, b multiples of 2^-9 below 2^10: D(a) + D(b) = D(a + b), a + b exact
    def D_exact(x, tag):
        m = Machine(prog, enums, feas_mode='fp', feas_timeout_ms=500); m.duration_mode = 'exact'
        def h(m): return duration_from_secs_f32(m, x)
        rs = m.explore(h)
        ok = [(r.pc, r.value.f[0].t) for r in rs if r.outcome == 'ok']
        pan = [z3.And(r.pc) if r.pc else z3.BoolVal(True) for r in rs if r.outcome == 'panic']
        val = z3.BitVecVal(0, 128)
        for pc, v in ok: val = z3.If(z3.And(pc) if pc else z3.BoolVal(True), v, val)
        assum = []
        for r in rs: assum += [a for a in r.assumes]
        return val, (z3.Or(pan) if pan else z3.BoolVal(False)), rs
    a, b = z3.FP('ga', F32), z3.FP('gb', F32)
    da, pa, rsa = D_exact(a, 'a'); db, pb, rsb = D_exact(b, 'b'); dab, pab, rsab = D_exact(z3.fpAdd(RNE, a, b), 'ab')
    def grid(x, nm):
        # x = k * 2^-9 with 0 <= k < 2^19
        k = z3.BitVec('gk_' + nm, 32)
        return [z3.ULT(k, z3.BitVecVal(1 << 19, 32)), x == z3.fpMul(RNE, z3.fpUnsignedToFP(RNE, k, F32), fpv32(2.0 ** -9))]
    side = []
    for rs in (rsa, rsb, rsab):
        for r in rs:
            for c in r.assumes:
                side.append(c)
    side = list({c.get_id(): c for c in side}.values())
    check.add(Obligation('C06.Ldur.from_secs_f32(0)=ZERO', side + [z3.fpIsZero(a), z3.Or(pa, da != 0)], [a], timeout=to, words='Duration::from_secs_f32(+-0.0) == Duration::ZERO (exact model of std try_from_secs!)'))
    check.add(Obligation('C06.Ldur.grid-additivity', side + grid(a, 'a') + grid(b, 'b') + [z3.Or(pa, pb, pab, da + db != dab)], [a, b], timeout=to,
                         words='a, b multiples of 2^-9 s below 2^10 s: from_secs_f32(a) + from_secs_f32(b) == from_secs_f32(a + b) exactly (identical values for exactly representable steps)'))


def validate_duration(check):
    """the exact Duration model against std (native): boundary + seeded random vectors, bit for bit"""
    import numpy as np
    from mirsym.models import duration_from_secs_f32, duration_as_secs_f32
    rng = check.rng
    xs = [0.0, -0.0, 1e-20, 4.2e-7, 2.7, 3e10, 1.0, 0.5, 1 / 3, 0.1, 16.666, 1e-9, 5e-10, 1.5e-9, 2.5e-9, 0.999999940395, 1.99999988, 8388608.0, 16777216.0, 1e19, 1.8e19, 2e19, -5.0, float('nan'), 3.4e38]
    xs += [float(np.float32(rng.uniform(0, 10 ** rng.randint(-9, 12)))) for _ in range(120)]
    xs += [float(np.float32(2.0 ** rng.randint(-40, 63) * rng.choice([1, 1.5, 1.25, 1.0000001]))) for _ in range(60)]
    cases = [{'kind': 'dur', 'x': '%08x' % f32bits(x)} for x in xs]
    nat = run_replay(cases, 'dev')
    prog, enums = c04._G['prog'], c04._G['enums']
    mism = 0
    for x, nt in zip(xs, nat):
        m = Machine(prog, enums, feas_mode='fp', feas_timeout_ms=2000); m.duration_mode = 'exact'
        xt = fpv32(x) if x == x else z3.fpNaN(F32)
        def h(m):
            d = duration_from_secs_f32(m, xt)
            return Agg(None, [d, duration_as_secs_f32(m, d.f[0].t)])
        rs = [r for r in m.explore(h) if r.outcome != 'infeasible']
        if len(rs) != 1: mism += 1; log('dur validation: forked', x, [(r.outcome, r.msg) for r in rs]); continue
        r = rs[0]
        if r.outcome == 'panic':
            if not nt.get('panic'): mism += 1; log('dur validation', x, 'model panics, native', nt)
            continue
        # the model introduces a fresh bit-vector for to_bits: solve for it
        s = z3.Solver(); s.add(*r.pc)
        if s.check() != z3.sat: mism += 1; log('dur validation: pc unsat', x); continue
        mod = s.model()
        n = mod.eval(r.value.f[0].f[0].t, model_completion=True).as_long()
        fb = z3.simplify(mod.eval(z3.fpToIEEEBV(r.value.f[1].t), model_completion=True)).as_long()
        if nt.get('panic') or str(n) != nt['nanos'] or fb != nt['as_f32']:
            mism += 1; log('dur validation mismatch', x, 'model', n, fb, 'native', nt)
    check.validation['vectors'] += len(xs); check.validation['mismatches'] += mism
    if mism:
        check.inconclusive.append(f'Duration model: {mism}/{len(xs)} vectors disagree with std')


def main(tier):
    check = Check('C06', tier, 'model_checking')
    c04._init()
    check.info['mir_source_hash'] = c04._G['keys']
    cfgs = [c for c in configs_for(tier)]
    with mp.Pool(int(os.environ.get('VERIF_WORKERS', '16')), initializer=c04._init) as pool:
        results = pool.map(run_config, [(c, tier) for c in cfgs], chunksize=1)
    nob = sum(r['obligations'] for r in results); ndis = sum(r['discharged'] for r in results)
    check.paths = sum(r['paths'] for r in results); check.states = check.paths; check.transitions = nob
    for r in results:
        check.functions.update({re.sub(r'<impl at [^>]*?([\w.]+:\d+):\d+: \d+:\d+>', r'<impl@\1>', k): v for k, v in r['fns'].items()})
        check.trusted |= set(r['models'])
        for p in r['problems'][:2]: check.inconclusive.append(f'{r["config"]}: {p}')
    check.inconclusive = check.inconclusive[:10]
    validate_duration(check)
    duration_lemmas(check, tier)
    check.run()
    for ob in check.obligations:
        if ob.result.status == 'sat':
            check.inconclusive.append(f'{ob.name}: sat {ob.result.model} (Duration model lemma; not a statement about mina)')
    sats = sorted([(len(s['ops']), r['config'], s) for r in results for s in r['sat']], key=lambda x: (x[0], str(x[1])))
    done = 0; seen_keys = set()
    # step palettes for the native confirmation: the solver's own step values first, then exactly representable grid steps,
    # sub-millisecond steps, mixed and very long steps.  Oracle (a): on grid steps the split schedule and the single step end
    # on identical values; oracle (b), any steps: the real animator agrees after every operation with the reference animator
    # of replay_anim, whose time in state is the plain sum of Duration::from_secs_f32(step) (the documented accumulation).
    palettes = [None, [0.75, 1.25, 0.5], [0.0005, 0.0005, 0.0005], [2.0 ** -11, 2.0 ** -11, 2.0 ** -12], [0.25, 0.0005, 0.75], [1000.0, 0.5, 100000.0], [0.001, 0.002, 0.004],
                # a long time in state followed by short frames (component 0 then loops forever with a 1 s cycle, so that the position
                # inside the cycle is visible), and a step that saturates the clock
                ('1;0;inf;false', [65536.0, 0.003, 0.003]), ('1;0;inf;false', [262144.0, 0.01, 0.01]), ('5;0;none;false', [1.0, 1e20, 1.0]), ('5;0;none;false', [1e20, 1.0, 1.0])]
    # candidates: the shortest few of every schedule shape (three-step shapes are needed for the long-run palettes)
    cands = []
    for tl in ('split2', 'huge', 'split3', 'zero', 'zero-mid'):
        # prefer configurations whose initial state has a single timeline (component 0: the one the palettes' timing applies to)
        of_tail = sorted([x for x in sats if x[2]['tail'] == tl], key=lambda x: (0 if (x[1][0] is not None and len(x[1][0]) == 1) else 1, x[0], str(x[1])))
        cands += of_tail[:8]
    for _, config, s in cands:
        if done >= 2: break
        ops = [tuple(o) for o in s['ops']]
        cfgnames = ['none' if c is None else ('merged' if len(c) > 1 else 'single') for c in config]
        npre = len(ops) - (2 if s['tail'] in ('split2', 'huge') else 3 if s['tail'] in ('split3', 'zero-mid') else 1)
        for pal in palettes:
            timing = None
            if pal is None:
                if not s.get('dts'): continue
                import struct as _st
                vals = [_st.unpack('>f', _st.pack('>I', b))[0] for b in s['dts']]
                if any(v != v or v < 0 or v > 3.4e38 for v in vals): continue
                split_ops = [('adv:0x%08x' % (0 if o[0] == 'adv0' else s['dts'][i])) if o[0] in ('adv', 'adv0') else 'set:%d' % o[1] for i, o in enumerate(ops)]
                single_ops = None
            else:
                if isinstance(pal, tuple): timing, pal = pal
                it = iter(pal)
                split_ops = [('adv:%r' % (0.0 if o[0] == 'adv0' else next(it, 0.25)) if o[0] in ('adv', 'adv0') else 'set:%d' % o[1]) for o in ops]
                single_ops = None
                if pal == palettes[1]:
                    tail_sum = sum(float(x[4:]) for x in split_ops[npre:])
                    single_ops = split_ops[:npre] + (['adv:%r' % tail_sum] if s['tail'] != 'zero' else [])
            cases = [{'kind': 'animator_history', 'config': cfgnames, 'ops': split_ops}]
            if pal is not None and timing: cases[0]['timing'] = timing
            if single_ops is not None: cases.append({'kind': 'animator_history', 'config': cfgnames, 'ops': single_ops})
            nat = run_replay(cases, 'dev', 'replay_anim')
            check.traces_validated += 1
            if single_ops is not None:
                la = nat[0]['trace'].split()[-1] if nat[0].get('trace') else None
                lb = nat[1]['trace'].split()[-1] if nat[1].get('trace') else '3.0'
                if la != lb:
                    check.report_violation(f'schedule_{done}', 'C06:schedule:' + ','.join(split_ops), f'config {cfgnames}: {split_ops} ends at x={la} but {single_ops} ends at x={lb}', cases[0])
                    done += 1; break
            if nat[0].get('mismatch') and not nat[0].get('panic'):
                if (tuple(cfgnames), tuple(split_ops)) in seen_keys: break
                seen_keys.add((tuple(cfgnames), tuple(split_ops)))
                check.report_violation(f'schedule_{done}', 'C06:schedule:' + ','.join(split_ops), f'config {cfgnames}: schedule {split_ops}: the animator does not show the values at the accumulated time: {nat[0].get("detail")}', cases[0])
                done += 1; break
    if sats and not done:
        check.inconclusive.append(f'{len(sats)} solver counterexamples, none reproduced natively (first: {sats[0][2]})')
    check.samples = [r['sample'] for r in results[:6] if r['sample']]
    check.assumptions += ['component timelines abstract (L-tl); as_secs_f32 uninterpreted in the history part; the exact Duration model is used for L-dur',
                          'off-grid steps: the property allows float rounding; only the mechanism (nothing but the accumulated Duration carries over) is claimed for them']
    check.info.update(configurations=len(cfgs), histories=sum(r['histories'] for r in results),
                      bounds='every configuration x every prefix of <= %d operations, followed by advance(a);advance(b)[;advance(c)] / advance(0) / advance(a);advance(0);advance(b) with symbolic a, b, c' % (2 if tier == 'quick' else 3))
    und = [o for o in check.obligations if o.result.status != 'unsat']
    nob2 = nob + len(check.obligations); ndis2 = ndis + sum(1 for o in check.obligations if o.result.status == 'unsat')
    lemma_obs = list(check.obligations)
    rc = check.finish(rule='one obligation per (configuration, prefix, schedule shape, path) + 2 Duration lemmas',
                      extra_cov={'obligations': nob2, 'discharged': ndis2, 'sat_counterexamples': len(sats), 'evaluations': max(1, nob2), 'distinct_nontrivial': max(2, nob2)})
    return rc


if __name__ == '__main__':
    sys.exit(main(sys.argv[1] if len(sys.argv) > 1 else 'quick'))
