"""Symbolic summary of the real MIR of TimeScale::{get_position,get_duration,...} and the queries on it.
Shared by C02, C03, C07, C10, C20."""
from common import *

ONE = fpv32(1.0); ZERO = fpv32(0.0); HALF = fpv32(0.5); TWO = fpv32(2.0)


def merge_scalar(paths, extract, default):
    """ite-merge a scalar over mutually exclusive path conditions"""
    out = default
    for pc, v in paths:
        c = z3.And(pc) if pc else z3.BoolVal(True)
        out = z3.If(c, extract(v), out)
    return out


class TSummary:
    """tag/pos/rep/rev/panic of get_position, duration/panic of get_duration, as ite terms over the inputs"""

    def __init__(self, prog, enums, suffix='', float_rem='exact', overflow_checks=True, check=None):
        self.m = m = Machine(prog, enums, feas_timeout_ms=30, float_rem=float_rem, overflow_checks=overflow_checks)
        s = suffix
        self.delay, self.dur, self.t = z3.FP('delay' + s, F32), z3.FP('dur' + s, F32), z3.FP('t' + s, F32)
        self.rd = z3.BitVec('rd' + s, 64); self.n = z3.BitVec('n' + s, 32); self.rev_in = z3.Bool('reverse' + s)
        self.inputs = [self.delay, self.dur, self.t, self.rd, self.n, self.rev_in]
        new = [f for f in prog.by_last['new'] if f.impl_self == 'TimeScale'][0]
        gp = prog.by_last['get_position'][0]
        gd = prog.by_last['get_duration'][0]
        acc = {k: prog.by_last[k][0] for k in ('get_delay', 'get_cycle_duration', 'get_repeat')}

        def mk_ts(m):
            rep = En('Repeat', self.rd, {0: [], 1: [Sc('u32', self.n)], 2: []})
            return m.alloc(m.call_fn(new, [Sc('f32', self.dur), Sc('f32', self.delay), rep, Sc('bool', self.rev_in)]))

        def h_pos(m):
            m.assume(z3.ULE(self.rd, 2))
            return m.call_fn(gp, [mk_ts(m), Sc('f32', self.t)])

        def h_dur(m):
            m.assume(z3.ULE(self.rd, 2))
            ts = mk_ts(m)
            d = m.call_fn(gd, [ts])
            return Agg(None, [d, m.call_fn(acc['get_delay'], [ts]), m.call_fn(acc['get_cycle_duration'], [ts]),
                              m.call_fn(acc['get_repeat'], [ts])])

        rs = m.explore(h_pos)
        self.pos_paths = rs
        bad = [r for r in rs if r.outcome in ('unsupported', 'truncated')]
        if bad and check is not None:
            check.inconclusive.append('get_position: ' + str(bad[0].msg))
        ok = [(r.pc, r.value) for r in rs if r.outcome == 'ok']
        pan = [r for r in rs if r.outcome == 'panic']
        self.panic = z3.Or([z3.And(r.pc) for r in pan]) if pan else z3.BoolVal(False)
        self.panic_msgs = sorted({r.msg for r in pan})

        def tag_of(v):
            return z3.BitVecVal(v.d, 8) if isinstance(v.d, int) else z3.Extract(7, 0, v.d)
        self.tag = merge_scalar(ok, tag_of, z3.BitVecVal(99, 8))
        self.pos = merge_scalar(ok, lambda v: v.p[1][0].t if v.d == 1 else (v.p[2][0].t if v.d == 2 else ZERO), ZERO)
        self.rep = merge_scalar(ok, lambda v: v.p[1][1].f[0].t if v.d == 1 else z3.BoolVal(False), z3.BoolVal(False))
        self.rev = merge_scalar(ok, lambda v: v.p[1][1].f[1].t if v.d == 1 else z3.BoolVal(False), z3.BoolVal(False))
        self.n_pos_paths = len(rs)

        rs2 = m.explore(h_dur)
        bad = [r for r in rs2 if r.outcome in ('unsupported', 'truncated')]
        if bad and check is not None:
            check.inconclusive.append('get_duration: ' + str(bad[0].msg))
        ok2 = [(r.pc, r.value) for r in rs2 if r.outcome == 'ok']
        pan2 = [r for r in rs2 if r.outcome == 'panic']
        self.dur_panic = z3.Or([z3.And(r.pc) for r in pan2]) if pan2 else z3.BoolVal(False)
        self.duration = merge_scalar(ok2, lambda v: v.f[0].t, ZERO)
        self.acc_delay = merge_scalar(ok2, lambda v: v.f[1].t, ZERO)
        self.acc_cycle = merge_scalar(ok2, lambda v: v.f[2].t, ZERO)
        self.acc_rep_d = merge_scalar(ok2, lambda v: v.f[3].d if not isinstance(v.f[3].d, int) else z3.BitVecVal(v.f[3].d, 64), z3.BitVecVal(99, 64))
        self.acc_rep_n = merge_scalar(ok2, lambda v: v.f[3].p[1][0].t if 1 in v.f[3].p and v.f[3].p[1] else z3.BitVecVal(0, 32), z3.BitVecVal(0, 32))
        self.n_dur_paths = len(rs2)
        if check is not None:
            check.note_machine(m)

    # ---- preconditions
    def valid(self):
        return [fin(self.delay), fin(self.dur), fin(self.t), z3.fpGT(self.dur, ZERO), z3.fpGEQ(self.delay, ZERO),
                z3.fpGEQ(self.t, ZERO), z3.ULE(self.rd, 2)]

    def quick_bound(self, nbits=12):
        cs = []
        for x, nm in ((self.delay, 'delay'), (self.dur, 'dur'), (self.t, 't')):
            c, _ = low_mantissa_zero(x, nbits, str(x))
            cs += c
        return cs

    # ---- reference terms written from the property text
    def tm(self):
        return z3.fpSub(RNE, self.t, self.delay)

    def total_active(self):
        """cycle * (repeats + 1): one cycle for Repeat::None; repeats + 1 is the exact integer (computed in 64 bits)
        converted to f32 with round-to-nearest"""
        cyc = z3.fpUnsignedToFP(RNE, z3.ZeroExt(32, self.n) + z3.BitVecVal(1, 64), F32)
        return z3.If(self.rd == 0, self.dur, z3.fpMul(RNE, self.dur, cyc))

    def case(self, inputs_model):
        """solver model -> replay case"""
        mv = inputs_model
        def g(v):
            x = mv.get(str(v))
            return x
        d, dl, t = g(self.dur), g(self.delay), g(self.t)
        rd = g(self.rd); n = g(self.n); rv = g(self.rev_in)
        rdv = rd[1] if isinstance(rd, tuple) else (rd or 0)
        nv = n[1] if isinstance(n, tuple) else (n or 0)
        rep = 'none' if rdv == 0 else ('inf' if rdv == 2 else str(nv))
        return {'kind': 'get_position', 'dur': '%08x' % (d[1] if d else 0x3f800000), 'delay': '%08x' % (dl[1] if dl else 0),
                'repeat': rep, 'reverse': bool(rv) if rv is not None else False, 't': '%08x' % (t[1] if t else 0)}


def fmod_pos(x, y):
    """exact fmod for x >= 0, y > 0"""
    r = z3.fpRem(x, y)
    return z3.If(z3.fpLT(r, ZERO), z3.fpAdd(RNE, r, y), r)


def has_op(e, names, seen=None):
    seen = seen if seen is not None else set()
    if e.get_id() in seen: return False
    seen.add(e.get_id())
    if z3.is_app(e) and e.decl().name() in names: return True
    return any(has_op(c, names, seen) for c in e.children())


def past_end_obligations(check, S, prefix, bound, to):
    """strictly past cycle*(repeats+1) since the delay  =>  Ended (per execution path of get_position that does NOT end;
    path-condition conjuncts that mention fp.rem / fp.div are irrelevant to the end test and dropped: sound for unsat)"""
    T = S.total_active()
    for k, r in enumerate(S.pos_paths):
        if r.outcome != 'ok' or r.value.d == 2: continue
        pcf = [c for c in r.pc if not has_op(c, ('fp.rem', 'fp.div'))]
        o = check.add(Obligation(f'{prefix}.K-past-the-end-is-ended[path{k}]', S.valid() + bound + pcf + [S.rd != 2, z3.fpGT(S.tm(), T)], S.inputs, timeout=to,
                                 words='time since the delay strictly beyond cycle*(repeats+1) => the time scale reports Ended (terminal value, no further change)'))
        o.S = S
