"""./check replay <path>: run the recorded counterexample through the real crates (dev and release builds)."""
import sys, json
from common import *
v = json.load(open(sys.argv[1]))
case = v['case']
cases = case if isinstance(case, list) else [case]
binn = v.get('bin', 'replay_core')
print('property:', v['property'], '|', v['description'])
for prof in ('dev', 'release'):
    print(prof, json.dumps(run_replay(cases, prof, binn)))
