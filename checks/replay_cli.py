"""./check replay <path>: run the recorded counterexample through the real crates (dev and release builds)."""
import sys, json, subprocess
from common import *

BIN_OF = {'get_position': 'replay_core', 'get_duration': 'replay_core', 'dur': 'replay_core', 'ease': 'replay_core', 'lerp': 'replay_core',
          'timeline_eval': 'replay_tl', 'merged': 'replay_tl', 'perm_eval': 'replay_tl', 'purity': 'replay_tl', 'twin_eval': 'replay_tl',
          'animator_history': 'replay_anim',
          'bevy_animator': 'replay_bevy', 'bevy_chain_other': 'replay_bevy', 'bevy_selector': 'replay_bevy', 'bevy_history': 'replay_bevy'}

v = json.load(open(sys.argv[1]))
case = v['case']
cases = case if isinstance(case, list) else [case]
kind = cases[0].get('kind', '')
print('property:', v['property'], '|', v['description'])
if kind == 'macro_native':
    # generated subject crate: the macro form and its documented builder reading are compiled side by side and compared natively
    import c15
    tdir = os.path.join(BUILD, 'macros-target')
    r = subprocess.run(['cargo', 'build', '--offline', '--target-dir', tdir, '--bin', 'macro_native'], cwd=c15.MACROS, env=dict(c15.ENV, RUSTFLAGS='-A warnings'), capture_output=True, text=True)
    if r.returncode != 0:
        print('build failed:', r.stderr[-800:]); sys.exit(2)
    print(subprocess.run([os.path.join(tdir, 'debug', 'macro_native'), cases[0]['item']], capture_output=True, text=True, timeout=300).stdout)
elif kind in ('macro_kernel', 'derive_shape'):
    print('this counterexample is a statement about the compiled macro expansion (no run-time input): re-run the check to re-derive it:', json.dumps(cases[0]))
else:
    binn = v.get('bin') or BIN_OF.get(kind, 'replay_core')
    for prof in ('dev', 'release'):
        print(prof, json.dumps(run_replay(cases, prof, binn, timeout=900)))
