"""C09 — a timeline is a pure, repeatable function of time."""
from sprops_main import *


def confirm(check, r):
    shape = r['shape']
    mv = {f'p{i}': f32bits((i + 1) / (shape[1] + 1)) for i in range(shape[1])}
    for i in range(shape[1]):
        for k, (n, ty) in enumerate(SUBJECT_FIELDS[shape[0]]):
            mv[f'v{i}_{n}'] = f32bits(8.0 * (i + 1)) if ty == 'f32' else 10 * (i + 1)
    for j, (n, ty) in enumerate(TARGET_FIELDS[shape[0]]):
        mv[f'ov_{n}'] = f32bits(200.0) if ty == 'f32' else 99
    cases = []
    for npos in (0.3, 0.6, 0.05):
        mv['npos'] = f32bits(npos); mv['ntag'] = 1
        cases.append(base_case(shape, mv, 'purity'))
    nats = run_replay(cases, 'dev', 'replay_tl')
    for case, nat in zip(cases, nats):
        if not (nat.get('idempotent') and nat.get('clone_same') and nat.get('restart_same') and nat.get('meta_same')):
            check.report_violation(f'{shape[0]}_N{shape[1]}', None, f'shape {shape}: purity broken natively: {nat}', case); return True
    check.inconclusive.append(f'C09 counterexample for {shape} ({r["sat"][:1]}) did not reproduce natively')
    return False


def main(tier):
    check, results, words, rule = generic_main('C09', tier, shapes_c09(tier), run_c09, confirm,
        'update leaves the timeline value unchanged (deep structural identity); its result on animated fields is the same term for two different symbolic prior targets; evaluating twice is idempotent; a derive(Clone) clone is the same value; start_with(v1);start_with(v2) == start_with(v2); delay/duration/repeat/cycle_duration unchanged by start_with',
        'one obligation per (shape, execution path)',
        ['order-independence / scrubbing follow from: update does not modify the timeline and its result does not depend on the prior target'])
    return finish_shapes(check, results, rule, words)


if __name__ == '__main__':
    sys.exit(main(sys.argv[1] if len(sys.argv) > 1 else 'quick'))
