"""C09 — a timeline is a pure, repeatable function of time."""
from sprops_main import *


def confirm_merged(check, r):
    """merged shapes: the two components get the solver's delays where usable, the evaluation time is tried before / between / after them"""
    shape = r['shape']
    nf = len(SUBJECT_FIELDS[shape[0]])
    mask = ''.join('1' if any(shape[2][i][k] for i in range(shape[1])) else '0' for k in range(nf))
    cases = []
    mvs = [x for x in r['sat'] if x and 'kind' not in x][:2] or [{}]
    for mv in mvs:
        d1 = bits2f32(mv.get('delay', 0)); d2 = bits2f32(mv.get('delay_2', 0)); tt = bits2f32(mv.get('time', 0))
        cands = []
        if 0 <= d1 < 1e6 and 0 <= d2 < 1e6 and 0 <= tt < 1e6: cands.append((d1, d2, tt))
        cands += [(0.0, 2.0, 1.0), (2.0, 0.0, 1.0), (1.0, 3.0, 2.0), (0.5, 0.5, 0.25), (0.0, 0.0, 0.5)]
        for a, b, t in cands:
            comps = ['%08x;%08x;none;false;%s' % (f32bits(1.5), f32bits(a), mask), '%08x;%08x;none;false;%s' % (f32bits(2.5), f32bits(b), mask)]
            cases.append({'kind': 'merged', 'want': 'purity', 'comps': comps, 'time': '%08x' % f32bits(t)})
    for case, nat in zip(cases, run_replay(cases, 'dev', 'replay_tl')):
        if nat.get('mismatch'):
            check.report_violation(f'merged_{shape[0]}_N{shape[1]}', None, f'MergedTimeline of two derive timelines animating fields {mask}: {nat["detail"]}', case); return True
    check.inconclusive.append(f'C09 counterexample for merged shape {shape} did not reproduce natively')
    return False


def confirm(check, r):
    shape = r['shape']
    if len(shape) > 5:
        return confirm_merged(check, r)
    structural_fail = [x for x in r['sat'] if x and x.get('kind') == 'structural']
    cases = []
    # witnesses of the solver (keyframes + abstract position realised as a concrete timing and time + last start value)
    for mv in [x for x in r['sat'] if x and 'kind' not in x][:2]:
        mv = dict(mv)
        for n, ty in TARGET_FIELDS[shape[0]]:
            if f'ov2_{n}' in mv: mv[f'ov_{n}'] = mv[f'ov2_{n}']
        cases.append(base_case(shape, mv, 'purity'))
    # canned probes (structural failures carry no model)
    mv = {f'p{i}': f32bits((i + 1) / (shape[1] + 1)) for i in range(shape[1])}
    for i in range(shape[1]):
        for k, (n, ty) in enumerate(SUBJECT_FIELDS[shape[0]]):
            mv[f'v{i}_{n}'] = f32bits(8.0 * (i + 1)) if ty == 'f32' else 10 * (i + 1)
    for j, (n, ty) in enumerate(TARGET_FIELDS[shape[0]]):
        mv[f'ov_{n}'] = f32bits(200.0) if ty == 'f32' else 99
    for npos, rep, rev in ((0.3, False, False), (0.6, False, False), (0.05, False, False), (0.05, True, False), (0.05, False, True), (0.3, True, True)):
        mv2 = dict(mv); mv2.update(npos=f32bits(npos), ntag=1, nrep=rep, nrev=rev)
        cases.append(base_case(shape, mv2, 'purity'))
    nats = run_replay(cases, 'dev', 'replay_tl')
    for case, nat in zip(cases, nats):
        why = [k for k in ('idempotent', 'clone_same', 'restart_same', 'meta_same') if not nat.get(k)]
        if nat.get('sub') and nat.get('other_prior') and not _same_animated(shape, nat['sub'], nat['other_prior']):
            why.append(f'result depends on the prior contents of the target: {nat["sub"]} from one prior target, {nat["other_prior"]} from another')
        if why:
            check.report_violation(f'{shape[0]}_N{shape[1]}', None, f'shape {shape}: purity broken natively ({"; ".join(why)}): {nat}', case); return True
    check.inconclusive.append(f'C09 counterexample for {shape} ({[x.get("kind", "model") for x in r["sat"][:1] if x]}) did not reproduce natively')
    return False


def _same_animated(shape, a, b):
    import re as _re
    fa = dict(_re.findall(r'(\w+): ([-\w.e+]+)', a)); fb = dict(_re.findall(r'(\w+): ([-\w.e+]+)', b))
    for k, (n, ty) in enumerate(SUBJECT_FIELDS[shape[0]]):
        if any(shape[2][i][k] for i in range(shape[1])) and fa.get(n) != fb.get(n): return False
    return True


def main(tier):
    check, results, words, rule = generic_main('C09', tier, shapes_c09(tier), run_c09, confirm,
        'update leaves the timeline value unchanged (deep structural identity); its result on animated fields is the same term for two different symbolic prior targets; evaluating twice is idempotent; a derive(Clone) clone is the same value; start_with(v1);start_with(v2) == start_with(v2); delay/duration/repeat/cycle_duration unchanged by start_with',
        'one obligation per (shape, execution path)',
        ['order-independence / scrubbing follow from: update does not modify the timeline and its result does not depend on the prior target'])
    return finish_shapes(check, results, rule, words)


if __name__ == '__main__':
    sys.exit(main(sys.argv[1] if len(sys.argv) > 1 else 'quick'))
