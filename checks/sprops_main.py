"""common main() for the checks built on sprops.py"""
from sprops import *
import sprops


def time_realisation(mv, reverse=None):
    """concrete timing + time that realises the abstract position (tag, npos, flags) of a solver model"""
    tag = mv.get('ntag', 1); npos = bits2f32(mv.get('npos', 0)); rep = mv.get('nrep', False); rev = mv.get('nrev', False)
    if reverse is None: reverse = bool(rev)
    extra = {}
    if tag == 0:
        extra = {'delay': '%08x' % f32bits(1.0), 'time': '%08x' % f32bits(0.5)}
    elif tag == 2:
        extra = {'time': '%08x' % f32bits(3.0)}
        if reverse: extra['reverse'] = True
    elif rev:
        extra = {'reverse': True, 'time': '%08x' % f32bits(1.0 - npos / 2.0)}
        if rep: extra.update(repeat='1', time='%08x' % f32bits(2.0 - npos / 2.0))
    elif rep:
        extra = {'repeat': '1', 'time': '%08x' % f32bits(1.0 + npos)}
    return extra


def base_case(shape, mv, kind):
    subject, N, pres, eas, ov = shape[:5]
    fields = SUBJECT_FIELDS[subject]
    kfs = [{'pos': '%08x' % mv.get(f'p{i}', 0), 'vals': [('%x' % mv.get(f'v{i}_{n}', 0)) if pres[i][k] else 'none' for k, (n, ty) in enumerate(fields)],
            'easing': ('tag%d' % (i + 1)) if eas[i] else 'none'} for i in range(N)]
    case = {'kind': kind, 'subject': subject, 'kfs': kfs, 'npos': '%08x' % mv.get('npos', 0), 'ov': bool(ov),
            'ovv': ['%x' % mv.get(f'ov_{n}', 0) for n, _ in TARGET_FIELDS[subject]]}
    case.update(time_realisation(mv, reverse=mv.get('reverse')))
    return case


def generic_main(pid, tier, shapes, worker, confirm, words, rule, assumptions, level='proof', extra=None):
    check = Check(pid, tier, level)
    th = None
    pool = structural.make_pool(12 if extra else None)      # fork the workers BEFORE any solver thread starts
    if extra:
        import threading
        th = threading.Thread(target=extra, args=(check,)); th.start()
    results = run_shapes(check, worker, shapes, pool=pool)
    if th: th.join()
    nviol = 0
    for r in results:
        if nviol >= 3: break
        if not r['sat']: continue
        if confirm(check, r): nviol += 1
    if check.violations:
        check.inconclusive = [x for x in check.inconclusive if 'did not reproduce' not in x]
    elif len([x for x in check.inconclusive if 'did not reproduce' in x]) > 6:
        keep = [x for x in check.inconclusive if 'did not reproduce' not in x]
        check.inconclusive = keep + [x for x in check.inconclusive if 'did not reproduce' in x][:6]
    check.assumptions += assumptions
    return check, results, words, rule
