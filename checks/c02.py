"""C02 — keyframe, start and end values are reached exactly and then held."""
from sprops_main import *
from kernel_timescale import TSummary
import kernel_timescale as K


def confirm(check, r):
    shape = r['shape']
    for mv in [x for x in r['sat'] if x][:2]:
        case = base_case(shape, mv, 'timeline_eval'); case['strict'] = False
        nat = run_replay([case], 'dev', 'replay_tl')[0]
        if nat.get('mismatch'):
            check.report_violation(f'{shape[0]}_N{shape[1]}', None, f'shape {shape}: {nat["detail"]} (position {bits2f32(nat.get("q", 0))!r})', case); return True
    check.inconclusive.append(f'C02 counterexample for {shape} did not reproduce natively')
    return False


def kernel(check):
    """hold rule on the real TimeScale MIR: at the end of every forward pass the position is exactly 1.0 (0.0 at the end of
    a reversing cycle, 1.0 at its middle) and never wraps to 0% first"""
    tier = check.tier
    prog, enums = structural._G['prog'], structural._G['enums']
    S = TSummary(prog, enums, check=check)
    to = 110 if tier == 'quick' else 1500
    bound = S.quick_bound(12) if tier == 'quick' else []
    tm = S.tm()
    r = K.fmod_pos(tm, S.dur)
    pre = S.valid() + [z3.Not(S.panic), S.rd != 0] + bound
    # tm an exact multiple of the cycle (m >= 1), still inside the animation: forward -> Active(1.0)
    inside = z3.Or(S.rd == 2, z3.fpLEQ(tm, S.total_active()))
    check.add(Obligation('C02.K-hold-at-1-forward', pre + [z3.Not(S.rev_in), z3.fpGEQ(tm, S.dur), z3.fpEQ(r, K.ZERO), inside,
                                                            z3.Not(z3.And(S.tag == 1, z3.fpEQ(S.pos, K.ONE)))], S.inputs, timeout=to,
                         words='repeating, forward: time since delay an exact positive multiple of the cycle (not past the end) => position exactly 1.0 (the 100% value is shown before any wrap to 0%)'))
    check.add(Obligation('C02.K-end-of-reversing-cycle', pre + [S.rev_in, z3.fpGEQ(tm, S.dur), z3.fpEQ(r, K.ZERO), inside,
                                                                 z3.Not(z3.And(S.tag == 1, z3.fpIsZero(S.pos)))], S.inputs, timeout=to,
                         words='repeating, reversing: at exact multiples of the cycle the position is exactly 0.0 (back at the original 0% value)'))
    pre0 = S.valid() + [z3.Not(S.panic), S.rd == 0] + bound
    check.add(Obligation('C02.K-end-no-repeat', pre0 + [z3.Not(S.rev_in), z3.fpEQ(tm, S.dur), z3.Not(z3.And(S.tag == 1, z3.fpEQ(S.pos, K.ONE)))], S.inputs, timeout=to,
                         words='no repeat, forward: time since delay exactly the cycle duration => position exactly 1.0'))
    check.add(Obligation('C02.K-ended-terminal', S.valid() + [z3.Not(S.panic), S.tag == 2, z3.Not(z3.fpEQ(S.pos, z3.If(S.rev_in, K.ZERO, K.ONE)))], S.inputs, timeout=to,
                         words='Ended(p): p is exactly 1.0 (0.0 when reversing) for every time past the end: the terminal value no longer changes'))
    # "at any time up to the delay the 0% value is produced": strictly before the delay the time scale reports NotStarted, and AT the
    # delay it reports position exactly 0% on the first forward pass (never the held 100% of a previous cycle)
    check.add(Obligation('C02.K-up-to-the-delay-is-0%', S.valid() + [z3.Not(S.panic), z3.Not(z3.fpIsNegative(S.t))] + bound + [z3.fpLEQ(S.t, S.delay),
                         z3.Not(z3.Or(S.tag == 0, z3.And(S.tag == 1, z3.fpIsZero(S.pos), z3.Not(S.rep), z3.Not(S.rev))))], S.inputs, timeout=to,
                         words='t <= delay  =>  NotStarted, or (t == delay) Active at exactly 0%, not repeating, not reversing'))
    K.past_end_obligations(check, S, 'C02', bound, to)
    check.run()
    for ob in check.obligations:
        if ob.result.status == 'sat':
            case = S.case(ob.result.model)
            nat = run_replay([case], 'dev')[0]
            check.report_violation(ob.name, None, f'{ob.words} FAILS for duration={bits2f32(int(case["dur"], 16))!r} delay={bits2f32(int(case["delay"], 16))!r} repeat={case["repeat"]} reverse={case["reverse"]} t={bits2f32(int(case["t"], 16))!r}: native {nat}', case)


def main(tier):
    check, results, words, rule = generic_main('C02', tier, shapes_c02(tier), run_c02, confirm,
        'position exactly on a keyframe that defines the property => exactly that keyframe value (start override value on the 0% frame during the first pass); not started => the 0% value; position 1.0 => the 100% (last defined) value; Ended => terminal value (100%, or the original 0% value when reversing)',
        'one obligation per (shape, execution path) + 4 kernel obligations on the real TimeScale MIR',
        ['pairwise distinct keyframe positions ("no other keyframe defines it at that position"); built-in easings and primitive lerp obey their endpoint laws (instances of lemmas proved in C13 / C14): integers exact, f32 exact (the property allows a few ulps)',
         'the relation between is_ended/duration() and the terminal position at the exact end instant is C07 (recorded known finding)'], extra=kernel)
    nk = len(check.obligations); dk = sum(1 for o in check.obligations if o.result.status == 'unsat')
    nob = sum(r['obligations'] for r in results) + nk; ndis = sum(r['discharged'] for r in results) + dk
    check.info.update(shapes=len(results), obligation_in_words=words)
    check.samples = [f'shape {r["shape"]}: {r["paths"]} paths; {r["sample"]}' for r in (results[:3] + results[-2:])]
    kob = list(check.obligations)
    return check.finish(rule=rule, extra_cov={'obligations': nob, 'discharged': ndis, 'evaluations': max(1, nob), 'distinct_nontrivial': max(2, nob),
                                             'sat_counterexamples': sum(len(r['sat']) for r in results) + sum(1 for o in kob if o.result.status == 'sat')})


if __name__ == '__main__':
    sys.exit(main(sys.argv[1] if len(sys.argv) > 1 else 'quick'))
