"""C04 — a state change never makes the values jump (bounded histories over every animator configuration shape)."""
from animator import *
import multiprocessing as mp

_G = {}


def _init():
    prog, enums, keys = load_program(['mina_core'], SUBJECTS)
    _G.update(prog=prog, enums=enums, keys=keys)


def depth_for(tier): return 4 if tier == 'quick' else 5


def run_config(args):
    try:
        return _run_config(args)
    except PathEnd as e:
        raise
    except Exception as e:
        import traceback
        return dict(config=args[0], histories=0, obligations=0, discharged=0, sat=[], problems=['worker exception: ' + traceback.format_exc()[-400:]], paths=0, panics=0, fns={}, models=[], sample=None)


def _run_config(args):
    config, tier = args
    ctx = Ctx(_G['prog'], _G['enums'])
    m = ctx.machine()
    nst = sum(1 for c in config if c is not None) + sum(1 for c in config[:3 if tier == 'quick' else 4] if c is None)
    nstates = 3 if tier == 'quick' else 4
    comp_ids = [k for c in config for k in (c or ())]
    res = dict(config=config, histories=0, obligations=0, discharged=0, sat=[], problems=[], paths=0, panics=0, fns={}, models=[], sample=None)
    for ops in op_shapes(nstates, depth_for(tier)):
        dts = [z3.FP(f'dt{i}', F32) for i in range(len(ops))]
        ctx.fapps = []
        def h(m):
            for c in ctx.valid(comp_ids): m.assume(c)
            return run_history(ctx, m, config, ops, dts)
        rs = m.explore(h)
        res['histories'] += 1; res['paths'] += len(rs)
        for r in rs:
            if r.outcome == 'infeasible': continue
            if r.outcome == 'panic': res['panics'] += 1; continue
            if r.outcome != 'ok': res['problems'].append(f'{ops}: {r.outcome} {r.msg}'); continue
            recs = r.value
            ax = ctx.axioms()
            for i in range(1, len(recs)):
                op = recs[i][0]
                if op[0] != 'set': continue
                before, after = recs[i - 1][1], recs[i][1]
                res['obligations'] += 1
                cur_before = before.f[F_STATE].d
                if op[1] == cur_before:
                    # same state: nothing at all may change
                    if struct_eq(m, before, after): res['discharged'] += 1
                    else: res['sat'].append(dict(ops=[list(o) for o in ops], step=i, kind='same-state-changed'))
                    continue
                s = z3.Solver(); s.set('timeout', 20000)
                s.add(*r.pc); s.add(*ax); s.add(values_of(before) != values_of(after))
                c = s.check()
                if c == z3.unsat: res['discharged'] += 1
                elif c == z3.sat:
                    res['sat'].append(dict(ops=[list(o) for o in ops], step=i, kind='jump', before=str(values_of(before))[:120], after=str(values_of(after))[:120]))
                else: res['problems'].append(f'{ops}: solver unknown')
            if res['sample'] is None:
                res['sample'] = f'{ops}: values after last op = {str(values_of(recs[-1][1]))[:160]}'
    res['fns'] = {k: f.text_hash for k, f in m.fns_used.items()}; res['models'] = sorted(m.models_used)
    return res


def replay_history(config, ops, dts=None):
    """concrete realisation: component k moves x linearly from 10(k+1) to 100(k+1) in 5+k s after a delay of 2k s"""
    it = iter(dts or [])
    return {'kind': 'animator_history', 'config': ['none' if c is None else ('merged' if len(c) > 1 else 'single') for c in config],
            'ops': [('adv:%s' % next(it, 1.5) if o[0] == 'adv' else 'set:%d' % o[1]) for o in ops]}


def native_witness(config, ops, want=('jump', 'mismatch')):
    """the solver's counterexample fixes the operation shape; the advance amounts are realised natively by trying a
    small grid (confirmation only: the verdict is the solver's)"""
    import itertools
    nadv = sum(1 for o in ops if o[0] == 'adv')
    grid = [1.5, 0.0, 7.5, 0.75, 20.0]
    combos = list(itertools.product(grid, repeat=nadv))[:125] or [()]
    cases = [replay_history(config, ops, c) for c in combos]
    nats = run_replay(cases, 'dev', 'replay_anim')
    for c, case, nat in zip(combos, cases, nats):
        if any(nat.get(w) for w in want):
            return case, nat
    return cases[0], nats[0]


def main(tier, pid='C04'):
    check = Check(pid, tier, 'model_checking')
    _init()
    check.info['mir_source_hash'] = _G['keys']
    cfgs = configs_for(tier)
    with mp.Pool(int(os.environ.get('VERIF_WORKERS', '16')), initializer=_init) as pool:
        results = pool.map(run_config, [(c, tier) for c in cfgs], chunksize=1)
    nob = sum(r['obligations'] for r in results); ndis = sum(r['discharged'] for r in results)
    check.paths = sum(r['paths'] for r in results)
    check.states = check.paths; check.transitions = nob
    for r in results:
        check.functions.update({re.sub(r'<impl at [^>]*?([\w.]+:\d+):\d+: \d+:\d+>', r'<impl@\1>', k): v for k, v in r['fns'].items()})
        check.trusted |= set(r['models'])
        for p in r['problems'][:2]: check.inconclusive.append(f'{r["config"]}: {p}')
    check.inconclusive = check.inconclusive[:10]
    # replay the shortest counterexample histories natively
    sats = sorted([(len(s['ops']), r['config'], s) for r in results for s in r['sat']], key=lambda x: (x[0], str(x[1])))
    done = 0
    for _, config, s in sats[:40]:
        if done >= 2: break
        case, nat = native_witness(config, [tuple(o) for o in s['ops']], want=('jump',))
        check.traces_validated += 1
        if nat.get('jump'):
            names = [o.replace('adv:', 'advance(').replace('set:', 'set_state(') + ')' for o in case['ops']]
            check.report_violation(f'history_{done}', 'C04:history:' + ','.join(names),
                                   f'config {case["config"]}: {"; ".join(names)} -> {nat["detail"]}', case)
            done += 1
    if sats and not done:
        check.inconclusive.append(f'{len(sats)} solver counterexamples, none reproduced natively (first: {sats[0][2]})')
    check.samples = [r['sample'] for r in results[:6] if r['sample']]
    kq = []
    if pid == 'C04':
        nob, ndis, nsat_c, kq = composition(check, tier, nob, ndis)
        sats = sats + [None] * nsat_c
    check.assumptions += ['component timelines are abstract and obey L-tl: update writes F_k(start values, t); F_k(v, 0) = v; start_with replaces the start values (proved for the real derive timelines in C02/C09/C10)',
                          'Duration is modelled by its nanosecond count; from_secs_f32 / as_secs_f32 uninterpreted with from(0)=0, as(0)=0 (exact model: C06)',
                          'advance amounts finite, >= 0, < 2^40 s; histories that overflow Duration panic (C20) and are not judged here']
    check.info.update(configurations=len(cfgs), histories=sum(r['histories'] for r in results), depth=depth_for(tier),
                      bounds=f'{3 if tier == "quick" else 4} states, every assignment of none/single/merged timelines, every operation sequence up to {depth_for(tier)} operations ending in set_state (advance amounts symbolic)')
    check.obligations = []
    und = [dict(name=o.name, status=(o.result.status if o.result else 'not-run'), detail='') for o in kq if o.result is None or o.result.status in ('timeout', 'unknown', 'error')]
    extra = {'obligations': nob, 'discharged': ndis, 'sat_counterexamples': len(sats), 'evaluations': max(1, nob), 'distinct_nontrivial': max(2, nob)}
    if kq:
        extra['queries'] = [dict(name=o.name, status=o.result.status if o.result else 'not-run', solver=o.result.solver if o.result else None, secs=round(o.result.secs, 2) if o.result else None, words=o.words) for o in kq]
        extra['undischarged'] = und
        extra['solver_time_s'] = round(sum(o.result.secs for o in kq if o.result), 2)
    return check.finish(rule='one obligation per set_state in every history shape x configuration; states = explored paths, transitions = set_state steps judged',
                        extra_cov=extra)


def composition(check, tier, nob, ndis):
    """C04 over REAL derive timelines inside the real animator (anim_concrete.py) + the time-scale lemma that harness assumes"""
    import anim_concrete as AC
    from kernel_timescale import TSummary, ZERO as KZ
    cres, cnob, cndis, csats = AC.concrete_part(check, tier)
    check.paths += sum(r['paths'] for r in cres); check.states = check.paths
    check.info['composition'] = dict(histories=len(cres), obligations=cnob, discharged=cndis, paths=sum(r['paths'] for r in cres),
                                     bounds='3 states (animated / none / animated; thorough: more shapes), real S1 timelines with one keyframe at a symbolic position (thorough: two), symbolic delay / duration / repeat / reverse per timeline, every operation sequence up to %d operations ending in set_state' % (3 if tier == 'quick' else 4),
                                     sample=next((r['sample'] for r in cres if r['sample']), None))
    done = 0
    for r, s in sorted(csats, key=lambda x: (len(x[0]['ops']), x[1]['step']))[:30]:
        case = AC.replay_case(r, s)
        nat = run_replay([case], 'dev', 'replay_anim')[0]
        check.traces_validated += 1
        if nat.get('jump'):
            check.report_violation(f'composition_{done}', 'C04:composition:' + ','.join(case['ops']), f'real derive timelines {case["specs"]} (cycle;delay;repeat;reverse;keyframe position;value per animated state), states {case["config"]}: {"; ".join(case["ops"])} -> {nat["detail"]}', case)
            done += 1
            if done >= 2: break
    if csats and not done:
        check.inconclusive.append(f'composition: {len(csats)} solver counterexamples, none reproduced natively (first: {str(csats[0][1])[:300]})')
    # the instances of L-pos assumed by the composition harness, on the real MIR of TimeScale::get_position
    S = TSummary(_G['prog'], _G['enums'], check=check)
    bound = S.quick_bound(12) if tier == 'quick' else []
    to = 110 if tier == 'quick' else 1500
    pre = S.valid() + [z3.Not(S.panic)] + bound
    kq = [check.add(Obligation('C04.K-position-at-the-delay-is-zero', pre + [z3.fpEQ(S.t, S.delay), z3.Not(z3.fpIsNegative(S.t)), z3.Not(z3.And(S.tag == 1, S.pos == KZ, z3.Not(S.rep), z3.Not(S.rev)))], S.inputs, timeout=to,
                               words='t == delay (t not -0.0: times are Duration::as_secs_f32 values)  =>  Active(+0.0, not repeating, not reversing): a freshly entered state (time 0, no delay) evaluates at exactly 0%')),
          check.add(Obligation('C04.K-not-started-iff-before-the-delay', pre + [(S.tag == 0) != z3.fpLT(S.t, S.delay)], S.inputs, timeout=to,
                               words='NotStarted  <=>  t < delay'))]
    check.run()
    for o in kq:
        nob += 1
        if o.result is not None and o.result.status == 'unsat': ndis += 1
        elif o.result is not None and o.result.status == 'sat':
            check.inconclusive.append(f'{o.name}: the time-scale lemma assumed by the composition harness fails on the real MIR (see C03)')
        else:
            check.inconclusive.append(f'{o.name}: undecided ({o.result.status if o.result else "not run"})')
    return nob + cnob, ndis + cndis, len(csats), kq


if __name__ == '__main__':
    sys.exit(main(sys.argv[1] if len(sys.argv) > 1 else 'quick'))
