"""C20 — valid configurations never panic or produce non-finite values; debug and release builds agree."""
from common import *
from kernel_timescale import *
import kernel_timescale as K
import structural, sprops
from structural import *


def ts_kernel(check, prog, enums, tier):
    to = 110 if tier == 'quick' else 1500
    D = TSummary(prog, enums, check=check)                                   # dev profile: overflow checks on
    R = TSummary(prog, enums, check=check, overflow_checks=False)             # release profile: wrapping arithmetic
    # same symbolic inputs in both (TSummary uses the same variable names for suffix '')
    pre = D.valid()
    bound = D.quick_bound(12) if tier == 'quick' else []
    big = fpv32(2.0 ** 64)
    sized = [z3.fpLEQ(D.dur, big), z3.fpLEQ(D.delay, big)]
    def ob(name, extra, neg, words, use_bound=True, key=None):
        o = check.add(Obligation(f'C20.{name}', pre + list(extra) + (bound if use_bound else []) + [neg], D.inputs, timeout=to, words=words, finding_key=key))
        o.S = D; return o
    ob('ts-no-panic-get_position', [], D.panic, 'TimeScale::get_position cannot panic (overflow checks on) for any finite t, delay >= 0, duration > 0, any Repeat incl. Times(u32::MAX)', use_bound=False)
    ob('ts-no-panic-get_duration', [], D.dur_panic, 'TimeScale::get_duration cannot panic for any valid configuration', use_bound=False)
    ob('ts-position-finite', [z3.Not(D.panic)], z3.And(D.tag != 0, z3.Not(fin(D.pos))), 'the position is never NaN or infinite')
    ob('ts-duration-finite', [z3.Not(D.dur_panic), D.rd != 2] + sized, z3.Not(fin(D.duration)), 'duration() is finite for finite repeat counts (cycle, delay <= 2^64)')
    same = z3.And(D.tag == R.tag, z3.Or(D.tag == 0, D.pos == R.pos), D.rep == R.rep, D.rev == R.rev)
    ob('ts-debug-equals-release-position', [z3.Not(D.panic)], z3.Not(same), 'get_position: dev (overflow-checked) and release (wrapping) semantics give identical results', use_bound=False)
    ob('ts-debug-equals-release-duration', [z3.Not(D.dur_panic)], z3.Not(D.duration == R.duration), 'get_duration: dev and release semantics give identical results', use_bound=False)
    return D


def lerp_finite(check, prog, enums, tier):
    import c14
    S = c14.LerpSummary(prog, enums, 'f32', check, suffix='_c20')
    to = 110 if tier == 'quick' else 1500
    lim = fpv32(2.0 ** 120)
    pre = [fin(S.a), fin(S.b), z3.fpLEQ(z3.fpAbs(S.a), lim), z3.fpLEQ(z3.fpAbs(S.b), lim), z3.fpGEQ(S.x, fpv32(-0.25)), z3.fpLEQ(S.x, fpv32(1.25))]
    if tier == 'quick':
        for v, nm in ((S.a, 'la'), (S.b, 'lb'), (S.x, 'lx')):
            pre += low_mantissa_zero(v, 16, nm)[0]
    o = check.add(Obligation('C20.lerp-f32-finite', pre + [z3.Or(S.panic, z3.Not(fin(S.res)))], [S.a, S.b, S.x], timeout=to,
                             words='f32 lerp of finite |a|,|b| <= 2^120 at an eased fraction in [-0.25, 1.25] (Back easings overshoot by ~10%) is finite' + (' (quick: 16 low mantissa bits zero)' if tier == 'quick' else '')))
    # integer lerp at an overshooting eased fraction (Back easings leave [0,1] by design): the checked conversion panics when
    # the overshoot leaves the integer type's range -> recorded known finding (documented panic of Lerp for primitives)
    S8 = c14.LerpSummary(prog, enums, 'u8', check, suffix='_c20')
    bx = z3.BitVec('xbits_c20', 32)
    o = check.add(Obligation('C20.lerp-u8-no-panic-with-overshooting-easing', [z3.fpBVToFP(bx, F32) == S8.x, z3.Extract(19, 0, bx) == 0, z3.fpGEQ(S8.x, fpv32(-0.125)), z3.fpLEQ(S8.x, fpv32(1.125)), S8.panic],
                             [S8.a, S8.b, S8.x], timeout=to, finding_key='C20:int-lerp:overshooting-easing-panics',
                             words='u8 lerp at an eased fraction in [-0.125, 1.125] (Back easings) never panics (literal reading)'))
    o.kind = 'lerp8'; o.S8 = S8
    return S


def structural_panics(args):
    shape = args
    api, ap, m, pos, vals, ovv = sprops.setup(shape)
    subject, N, pres, eas, ov = shape
    tm = Timing(); time_v = z3.FP('time', F32)
    def h(m):
        sprops.assume_positions(m, pos)
        m.assume(tm.valid())
        tl = build_timeline(m, api, sprops.mk_kfs(api, shape, pos, vals), tm, tag_easing(0), memo_key='t')
        tref = m.alloc(tl)
        if ov: m.call_fn(api.start_with, [tref, m.alloc(sprops.ov_source(api, subject, ovv))])
        tgt, s0 = mk_target(api, 's0'); gref = m.alloc(tgt)
        m.call_fn(api.update, [tref, gref, Sc('f32', time_v)])
        for k in ('delay', 'duration', 'repeat', 'cycle_duration'):
            m.call_fn(api.meta[k], [tref])
        return True
    rs = m.explore(h)
    res = new_result(shape)
    for r in rs:
        if r.outcome in ('infeasible', 'ok'):
            if r.outcome == 'ok': res['obligations'] += 1; res['discharged'] += 1
            continue
        if r.outcome == 'panic':
            res['obligations'] += 1
            st, model = decide(list(r.pc))          # is the panicking path really feasible?
            if st == 'unsat': res['discharged'] += 1
            elif st == 'sat': res['sat'].append(dict(msg=r.msg, model=model_values(model, pos + [ap.p, ap.tag])))
            else: res['problems'].append('solver unknown on a panic path: ' + str(r.msg))
        else:
            res['problems'].append(f'{r.outcome}: {r.msg}')
    res['sample'] = f'{len(rs)} paths, build + start_with + update + metadata: no reachable panic'
    return close_result(res, m, rs)


def animator_panics(check, prog, enums, tier):
    """advance(dt) for every finite dt >= 0 on the real MIR with the exact Duration model"""
    from mirsym.models import mk_duration
    import animator
    ctx = animator.Ctx(prog, enums)
    m = ctx.machine(); m.duration_mode = 'exact'; m.feas_mode = 'fp'; m.solver.set('timeout', 3000)
    dt = z3.FP('dt', F32); n0 = z3.BitVec('n0', 128)
    def h(m):
        m.assume(z3.And(fin(dt), z3.fpGEQ(dt, fpv32(0.0))))
        for c in ctx.valid([0]): m.assume(c)
        a = ctx.build(m, ((0,), None, None, None))
        aref = m.alloc(a)
        m.call_fn(ctx.anim['advance'], [aref, Sc('f32', dt)])
        m.call_fn(ctx.anim['advance'], [aref, Sc('f32', dt)])
        m.call_fn(ctx.anim['is_ended'], [aref])
        return True
    rs = m.explore(h)
    check.note_machine(m)
    to = 110 if tier == 'quick' else 1500
    pan = [r for r in rs if r.outcome == 'panic']
    for r in rs:
        if r.outcome in ('unsupported', 'truncated'): check.inconclusive.append(f'animator advance: {r.msg}')
    for i, r in enumerate(pan):
        o = check.add(Obligation(f'C20.advance-no-panic[{i}]', list(r.pc), [dt], timeout=to, finding_key=None,
                                 words=f'StateAnimator::advance(dt) twice for any finite dt >= 0 cannot panic ({r.msg})'))
        o.kind = 'advance'
    if not pan:
        o = check.add(Obligation('C20.advance-no-panic', [z3.BoolVal(False)], [], words='StateAnimator::advance(dt) for any finite dt >= 0: no panicking path exists in the executed MIR (Duration conversion and accumulation saturate)', solvers=('z3',)))


def main(tier):
    check = Check('C20', tier, 'proof')
    structural.worker_init()
    prog, enums = structural._G['prog'], structural._G['enums']
    check.info['mir_source_hash'] = structural._G['keys']
    pool = structural.make_pool(10)
    shapes = [s for s in sprops.shapes_c02(tier) if s[1] <= 2][:400]
    import threading
    def kern():
        ts_kernel(check, prog, enums, tier); lerp_finite(check, prog, enums, tier); animator_panics(check, prog, enums, tier)
        check.run(workers=6)
    th = threading.Thread(target=kern); th.start()
    with pool:
        results = pool.map(structural_panics, shapes, chunksize=1)
    th.join()
    for r in results:
        check.functions.update({re.sub(r'<impl at [^>]*?([\w.]+:\d+):\d+: \d+:\d+>', r'<impl@\1>', k): v for k, v in r['fns'].items()})
        check.trusted |= set(r['models'])
        for p in r['problems'][:1]: check.inconclusive.append(f'shape {r["shape"]}: {p}')
        for s in r['sat'][:1]:
            check.report_violation(f'structural_{r["shape"][0]}_{r["shape"][1]}', None, f'shape {r["shape"]}: reachable panic {s["msg"]} at {s["model"]}', {'kind': 'timeline_eval', 'shape': str(r['shape'])})
    check.inconclusive = check.inconclusive[:10]
    check.paths += sum(r['paths'] for r in results)
    import numpy as np
    for ob in check.obligations:
        if ob.result.status != 'sat': continue
        if hasattr(ob, 'S'):
            S = ob.S; case = S.case(ob.result.model)
            nd, nr = run_replay([case], 'dev')[0], run_replay([case], 'release')[0]
            bad = nd.get('panic') or nr.get('panic') or nd != nr or (not nd.get('panic') and nd['tag'] != 0 and not np.isfinite(bits2f32(nd['pos'])))
            desc = f'{ob.words} FAILS: duration={bits2f32(int(case["dur"], 16))!r} delay={bits2f32(int(case["delay"], 16))!r} repeat={case["repeat"]} reverse={case["reverse"]} t={bits2f32(int(case["t"], 16))!r}: dev {nd} / release {nr}'
            if 'duration-finite' in ob.name and not nd.get('panic') and not np.isfinite(bits2f32(nd['duration'])): bad = True
            if bad: check.report_violation(ob.name, ob.finding_key, desc, case)
            else: check.inconclusive.append(f'{ob.name}: model did not reproduce natively ({case} -> {nd})')
        elif getattr(ob, 'kind', '') == 'lerp8':
            S8 = ob.S8; mv = ob.result.model
            g = lambda v: (mv.get(str(v)) or ('bv', 0))[1]
            case = {'kind': 'lerp', 'ty': 'u8', 'a': str(g(S8.a)), 'b': str(g(S8.b)), 'x': '%08x' % g(S8.x)}
            nat = run_replay([case], 'dev')[0]
            if nat.get('panic'):
                check.report_violation(ob.name, ob.finding_key, f'u8 lerp({case["a"]}, {case["b"]}, {bits2f32(g(S8.x))!r}) panics: {nat.get("msg")} — e.g. an InBack/OutBack easing on a u8 property whose keyframe value is at the type boundary', case)
            else:
                check.inconclusive.append(f'{ob.name}: model did not reproduce natively: {case} -> {nat}')
        elif getattr(ob, 'kind', '') == 'advance':
            dtv = ob.result.model.get('dt')
            # the abstract timeline of the model has an arbitrary valid total duration: the native timeline is tried with the default
            # timing and with astronomically long (still finite, valid) timings — cycle x (repeats + 1) >= 2^64 s
            base = {'kind': 'animator_history', 'config': ['single', 'none', 'none', 'none'], 'ops': ['adv:0x%08x' % dtv[1], 'adv:0x%08x' % dtv[1]]}
            cases = [dict(base)] + [dict(base, timing=t) for t in ('31500000000;0;4294967295;false', '1e30;0;none;false', '3e38;1e30;none;false', '1e25;5;3;true')]
            nats = run_replay(cases, 'dev', 'replay_anim')
            hit = next(((c, n) for c, n in zip(cases, nats) if n.get('panic')), None)
            if hit:
                case, nat = hit
                check.report_violation(ob.name, 'C20:advance:duration-overflow', f'StateAnimator advance({bits2f32(dtv[1])!r}) x2 + is_ended on a timeline with timing {case.get("timing", "default")} (cycle;delay;repeat;reverse) panics: {nat.get("detail")}', case)
            else:
                check.inconclusive.append(f'{ob.name}: model dt={bits2f32(dtv[1])!r} did not panic natively: {nats[0]}')
        else:
            check.inconclusive.append(f'{ob.name}: sat {ob.result.model}')
    nob = sum(r['obligations'] for r in results); ndis = sum(r['discharged'] for r in results)
    claimed = [o for o in check.obligations if not (o.finding_key and check.is_known(o.finding_key))]
    check.assumptions += ['valid configuration: finite t >= 0, delay >= 0, cycle duration > 0, positions in [0,1] (not -0.0), finite values; values |v| <= 2^120 for the finiteness of f32 lerp (next to f32::MAX a(1-x)+bx can round to infinity)',
                          'the only semantic difference between the profiles in this code is overflow checking: dev = overflow asserts panic, release = wrapping; both are executed and compared',
                          'structural part: time scale abstracted (all three phases), lerp/easing uninterpreted: only panics of the structural code are judged there']
    check.info.update(structural_shapes=len(shapes))
    check.samples = [o.words for o in check.obligations[:6]] + [results[0]['sample'] if results else '']
    nobl = nob + len(claimed); ndisl = ndis + sum(1 for o in claimed if o.result.status == 'unsat')
    return check.finish(rule='kernel: one obligation per clause over all f32 inputs (both profiles); structural: one obligation per execution path (panicking paths must be infeasible)',
                        extra_cov={'obligations': nobl, 'discharged': ndisl, 'evaluations': max(1, nobl), 'distinct_nontrivial': max(2, nobl),
                                   'sat_counterexamples': sum(len(r['sat']) for r in results) + sum(1 for o in claimed if o.result.status == 'sat')})


if __name__ == '__main__':
    sys.exit(main(sys.argv[1] if len(sys.argv) > 1 else 'quick'))
