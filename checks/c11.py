"""C11 — the order in which keyframes are added does not matter.

Two timelines are built by the REAL builder from the same keyframes (symbolic, pairwise distinct positions
p0 < p1 < ...), once inserted in increasing order and once in the order given by a permutation (every non-identity
permutation is a separate shape); the solver decides whether any time / position / value assignment makes `update` or
the metadata differ."""
from structural import *
import structural


def shapes_for(tier):
    out = []
    for subject, nf in (('S1', 1), ('S2', 2)):
        for N in ((2, 3) if tier == 'quick' else (2, 3, 4)):
            if subject == 'S2' and N == 4: continue
            perms = [p for p in itertools.permutations(range(N)) if p != tuple(range(N))]
            pres_opts = [tuple((1,) * nf for _ in range(N))]
            if subject == 'S2':
                pres_opts.append(tuple(((1, 0) if i % 2 == 0 else (0, 1)) for i in range(N)))
                pres_opts.append(tuple(((1, 1) if i != 1 else (0, 1)) for i in range(N)))
            for pres in pres_opts:
                for eas in ([(0,) * N, tuple(1 if i == 0 else 0 for i in range(N))] if tier == 'quick' else list(itertools.product((0, 1), repeat=N))):
                    for perm in perms:
                        out.append((subject, N, pres, tuple(eas), perm))
    return out


def run_shape(shape):
    prog, enums = structural._G['prog'], structural._G['enums']
    subject, N, pres, eas, perm = shape
    api = Api(prog, subject)
    ap = AbstractPosition()
    m = machine_for(prog, enums, abstract_pos=ap)
    pos = [z3.FP(f'p{i}', F32) for i in range(N)]
    vals = [[z3.Const(f'v{i}_{n}', sort_of(ty)) for n, ty in api.fields] for i in range(N)]
    tm = Timing(); time_v = z3.FP('time', F32)

    def h(m):
        for i in range(N):
            m.assume(z3.And(z3.fpGEQ(pos[i], ZERO), z3.fpLEQ(pos[i], ONE), z3.Not(z3.fpIsNegative(pos[i]))))
            if i: m.assume(z3.fpLT(pos[i - 1], pos[i]))      # distinct positions (the property's premise); named in increasing order
        m.assume(tm.valid())
        def kf(i):
            return {'pos': pos[i], 'vals': {n: (vals[i][k] if pres[i][k] else None) for k, (n, ty) in enumerate(api.fields)},
                    'easing': tag_easing(i + 1) if eas[i] else None}
        ta = m.alloc(build_timeline(m, api, [kf(i) for i in range(N)], tm, tag_easing(0), memo_key='a'))
        tb = m.alloc(build_timeline(m, api, [kf(i) for i in perm], tm, tag_easing(0), memo_key='b'))
        if struct_eq(m, ta, tb):
            # the two built timelines are the same value: update and the metadata accessors are functions of it
            return 'identical'
        tgt_a, s0 = mk_target(api, 's0'); tgt_b = clone(tgt_a)
        ga, gb = m.alloc(tgt_a), m.alloc(tgt_b)
        m.call_fn(api.update, [ta, ga, Sc('f32', time_v)])
        m.call_fn(api.update, [tb, gb, Sc('f32', time_v)])
        meta = [(m.call_fn(api.meta[k], [ta]), m.call_fn(api.meta[k], [tb])) for k in ('delay', 'duration', 'repeat', 'cycle_duration')]
        return (m.load(ga), m.load(gb), meta)

    rs = m.explore(h, time_budget=90)
    res = new_result(shape)
    from mirsym.models import eq_values
    for r in rs:
        if r.outcome == 'infeasible': continue
        if r.outcome != 'ok':
            res['problems'].append(f'{r.outcome}: {r.msg}'); continue
        if r.value == 'identical':
            res['obligations'] += 1; res['discharged'] += 1
            if res['sample'] is None: res['sample'] = 'built timelines structurally identical (boundary_times, time scale, every sub-timeline)'
            continue
        a, b, meta = r.value
        diffs = [x.t != y.t for x, y in zip(a.f, b.f)]
        def same(x, y):
            if isinstance(x, Sc): return x.t == y.t                 # identical value (bitwise for floats)
            if isinstance(x, En):
                dx = x.d if not isinstance(x.d, int) else z3.BitVecVal(x.d, 64); dy = y.d if not isinstance(y.d, int) else z3.BitVecVal(y.d, 64)
                cs = [dx == dy]
                for k in set(x.p) & set(y.p):
                    cs += [z3.Implies(dx == z3.BitVecVal(k, 64), same(u, v)) for u, v in zip(x.p[k], y.p[k])]
                return z3.And(cs)
            return z3.BoolVal(True)
        for x, y in meta:
            diffs.append(z3.Not(same(x, y)))
        if len([x for x in res['sat'] if x]) >= 3:
            res['truncated'] = True; break          # enough counterexamples for this shape: the rest adds nothing
        res['obligations'] += 1
        st, model = decide(list(r.pc) + [z3.Or(diffs)], timeout_ms=8000)
        if st == 'unsat': res['discharged'] += 1
        elif st == 'sat':
            vs = pos + [x for row in vals for x in row] + [ap.p, ap.tag, ap.rep, ap.rev]
            record_sat(res, r.pc, z3.Or(diffs), diverse_values(vals, api.fields) + nice_positions(pos, ap.p), vs, model)
        else: res['problems'].append('solver unknown')
        if res['sample'] is None: res['sample'] = str(a.f[0].t)[:200]
    return close_result(res, m, rs)


def confirm(check, r):
    subject, N, pres, eas, perm = r['shape']
    mv = next((x for x in r['sat'] if x), None)
    if mv is None: return False
    fields = SUBJECT_FIELDS[subject]
    kfs = [{'pos': '%08x' % mv[f'p{i}'], 'vals': [('%x' % mv[f'v{i}_{n}']) if pres[i][k] else 'none' for k, (n, ty) in enumerate(fields)],
            'easing': ('tag%d' % (i + 1)) if eas[i] else 'none'} for i in range(N)]
    case = {'kind': 'perm_eval', 'subject': subject, 'kfs': kfs, 'perm': list(perm), 'npos': '%08x' % mv['npos']}
    if mv.get('ntag') == 0: case['time'] = '%08x' % f32bits(-1.0)        # NotStarted
    if mv.get('ntag') == 2: case['time'] = '%08x' % f32bits(2.0)         # Ended (default timing: 1 s, no delay)
    nat = run_replay([case], 'dev', 'replay_tl')[0]
    if nat.get('mismatch'):
        poss = [bits2f32(mv[f'p{i}']) for i in range(N)]
        check.report_violation(f'{subject}_N{N}_perm{"".join(map(str, perm))}', 'C11:' + subject,
                               f'{subject}: keyframes at {poss} inserted in order {list(range(N))} vs {list(perm)}, position {bits2f32(mv["npos"])!r}: {nat["detail"]}', case)
        return True
    # the abstract position may not be realisable with delay 0 / duration 1; try the other solver values as given
    check.inconclusive.append(f'C11 counterexample for {r["shape"]} did not reproduce: {nat}')
    return False


def main(tier):
    check = Check('C11', tier, 'proof')
    shapes = shapes_for(tier)
    results = run_shapes(check, run_shape, shapes)
    # (witnesses over uninterpreted lerp/easing need not be visible with the real kernels: several shapes are tried)
    tried = 0
    for r in results:
        if len(check.violations) >= 2 or tried >= 40: break
        if r['sat'] and any(r['sat']):
            tried += 1
            confirm(check, r)
    if check.violations:
        check.inconclusive = [x for x in check.inconclusive if 'did not reproduce' not in x]
    check.assumptions += ['pairwise distinct keyframe positions in [0,1] (premise of the property); valid timing',
                          'time scale abstracted by L-pos (C03); lerp / easing uninterpreted']
    check.info['bounds'] = 'N <= %d keyframes, all non-identity insertion orders; S1 (f32), S2 (f32,u8)' % (3 if tier == 'quick' else 4)
    return finish_shapes(check, results, 'one obligation per (shape, permutation, execution path)',
                         'same keyframes inserted in order id and in order pi: update(target, t) and delay/duration/repeat/cycle_duration are identical')


if __name__ == '__main__':
    sys.exit(main(sys.argv[1] if len(sys.argv) > 1 else 'quick'))
