"""Shared infrastructure of the checks: MIR dumps of /repo's current tree, enum tables, obligation runner,
native replay, known findings, evidence files."""
import os, sys, re, json, time, hashlib, subprocess, fcntl, glob, random

VERIF = os.path.dirname(os.path.dirname(os.path.abspath(__file__)))
sys.path.insert(0, os.path.join(VERIF, 'engine'))
REPO = os.environ.get('VERIF_REPO', '/repo')
# VERIF_REPO (default /repo) lets a background run work on a snapshot of the repository (vp run --with-repo) or on a scratch worktree
# with a seeded change; such runs use their own build directory and never write to /verif/evidence (evidence is only ever written by
# a run against /repo itself).
ALT_REPO = os.path.realpath(REPO) != '/repo'
BUILD = os.environ.get('VERIF_BUILD') or os.path.join(VERIF, '.build' if not ALT_REPO else '.build-alt-' + hashlib.sha1(os.path.realpath(REPO).encode()).hexdigest()[:8])
os.makedirs(BUILD, exist_ok=True)
EVIDENCE_DIR = os.path.join(VERIF, 'evidence') if not ALT_REPO else os.path.join(BUILD, 'evidence')
VIOLATIONS_DIR = os.path.join(VERIF, 'violations') if not ALT_REPO else os.path.join(BUILD, 'violations')


def crate_dir(path):
    """a crate of /verif with path dependencies on /repo; for an alternative repository root a copy with the paths rewritten"""
    if not ALT_REPO:
        return path
    dst = os.path.join(BUILD, 'crates', os.path.basename(path.rstrip('/')))
    os.makedirs(dst, exist_ok=True)
    lock = open(os.path.join(BUILD, 'crates.lock'), 'w'); fcntl.flock(lock, fcntl.LOCK_EX)
    try:
        subprocess.run(['rsync', '-a', '--delete', '--exclude', 'target', '--exclude', 'Cargo.toml', path.rstrip('/') + '/', dst + '/'], check=True)
        for root, _, fs in os.walk(path):
            if '/target' in root: continue
            for f in fs:
                if f == 'Cargo.toml':
                    t = open(os.path.join(root, f)).read()
                    t = t.replace('"/repo/', '"' + REPO.rstrip('/') + '/').replace('"/repo"', '"' + REPO.rstrip('/') + '"')
                    fp = os.path.join(dst, os.path.relpath(os.path.join(root, f), path))
                    if not os.path.exists(fp) or open(fp).read() != t:
                        open(fp, 'w').write(t)
    finally:
        fcntl.flock(lock, fcntl.LOCK_UN)
    return dst

import z3
from mirsym.parser import Program
from mirsym.machine import Machine, fpv32, PathResult
from mirsym.values import *
from mirsym import smt

ENV = dict(os.environ, CARGO_NET_OFFLINE='true', CARGO_TERM_COLOR='never')

CRATE_SOURCES = {
    'mina_core': ['core/src', 'core/Cargo.toml', 'Cargo.toml'],
    'lyon_geom': ['Cargo.lock', 'core/Cargo.toml'],
    'mina_macros': ['macros/src', 'macros/Cargo.toml'],
    'bevy_mina': ['bevy/src', 'bevy/Cargo.toml', 'core/src', 'macros/src', 'src', 'Cargo.toml'],
    'subjects': ['core/src', 'macros/src', 'src', 'Cargo.toml', 'core/Cargo.toml', 'macros/Cargo.toml'],
}


def tree_hash(rel_paths, extra_dirs=()):
    h = hashlib.sha256()
    files = []
    for rp in rel_paths:
        p = os.path.join(REPO, rp)
        if os.path.isdir(p):
            for root, _, fs in os.walk(p):
                for f in fs:
                    files.append(os.path.join(root, f))
        elif os.path.exists(p):
            files.append(p)
    for d in extra_dirs:
        for root, _, fs in os.walk(d):
            if '/target' in root: continue
            for f in fs:
                files.append(os.path.join(root, f))
    for f in sorted(files):
        h.update(f.encode()); h.update(open(f, 'rb').read())
    return h.hexdigest()[:20]


def log(*a):
    print(*a, file=sys.stderr, flush=True)


def dump_mir(crate, subjects_dir=None, features=None):
    """textual MIR of `crate` for the CURRENT /repo tree (cached by a hash of the relevant sources)"""
    extra = [subjects_dir] if subjects_dir else []
    key = tree_hash(CRATE_SOURCES['subjects' if subjects_dir else crate], extra)
    name = (crate if not features else crate + '_' + features.replace(',', '_')) if not subjects_dir else 'subjects_' + os.path.basename(subjects_dir.rstrip('/'))
    out = os.path.join(BUILD, 'mir', f'{name}.{key}.mir')
    os.makedirs(os.path.dirname(out), exist_ok=True)
    if os.path.exists(out) and os.path.getsize(out) > 0:
        return out, key
    lock = open(os.path.join(BUILD, 'mir', f'{name}.lock'), 'w')
    fcntl.flock(lock, fcntl.LOCK_EX)
    try:
        if os.path.exists(out) and os.path.getsize(out) > 0:
            return out, key
        tdir = os.path.join(BUILD, 'mir-target')
        t0 = time.time()
        if subjects_dir:
            cwd = subjects_dir; pkg = []
            pname = 'subjects'
        else:
            cwd = REPO; pkg = ['-p', crate]; pname = crate
        subprocess.run(['cargo', '+nightly', 'clean', '--offline', '--target-dir', tdir, '-p', pname], cwd=cwd, env=ENV,
                       capture_output=True)
        cmd = ['cargo', '+nightly', 'rustc', '--offline', '--lib', '--target-dir', tdir] + pkg + (['--features', features] if features else []) + \
              ['--', '-Zunpretty=mir', '-C', 'overflow-checks=on', '-A', 'warnings']
        r = subprocess.run(cmd, cwd=cwd, env=ENV, capture_output=True, text=True)
        if r.returncode != 0 or not r.stdout.strip():
            log(r.stderr[-3000:])
            raise RuntimeError(f'MIR dump of {name} failed')
        tmp = out + '.tmp'
        open(tmp, 'w').write(r.stdout)
        os.replace(tmp, out)
        # drop stale dumps of the same crate
        for old in glob.glob(os.path.join(BUILD, 'mir', f'{name}.*.mir')):
            if old != out and time.time() - os.path.getmtime(old) > 6 * 3600:
                os.unlink(old)
        log(f'[mir] dumped {name} in {time.time() - t0:.1f}s -> {os.path.basename(out)}')
        return out, key
    finally:
        fcntl.flock(lock, fcntl.LOCK_UN)


def parse_enums(dirs):
    """enum tables from the sources (variant order = discriminant for fieldless / default-repr enums)"""
    enums = {}
    for d in dirs:
        for root, _, fs in os.walk(d):
            if '/target' in root: continue
            for f in fs:
                if not f.endswith('.rs'): continue
                txt = open(os.path.join(root, f), encoding='utf-8', errors='replace').read()
                txt = re.sub(r'//[^\n]*', '', txt)
                for m in re.finditer(r'\benum\s+(\w+)\s*(?:<[^{]*>)?\s*\{', txt):
                    name = m.group(1); i = m.end(); depth = 1; body = []
                    while i < len(txt) and depth:
                        ch = txt[i]
                        if ch in '{([': depth += 1
                        elif ch in '})]': depth -= 1
                        if depth: body.append(ch)
                        i += 1
                    body = ''.join(body)
                    body = re.sub(r'#\[[^\]]*\]', '', body)
                    # split top-level commas
                    parts = []; depth = 0; cur = ''
                    for ch in body:
                        if ch in '{([<': depth += 1
                        elif ch in '})]>': depth -= 1
                        if ch == ',' and depth == 0:
                            parts.append(cur); cur = ''
                        else:
                            cur += ch
                    parts.append(cur)
                    vs = []
                    for p in parts:
                        mm = re.match(r'\s*(\w+)', p)
                        if mm: vs.append((mm.group(1), len(vs)))
                    if vs and name not in enums:
                        enums[name] = vs
    return enums


_PROG_CACHE = {}


def load_program(crates, subjects_dir=None):
    prog = Program(); keys = {}
    if subjects_dir: subjects_dir = crate_dir(subjects_dir)
    roots = [REPO]
    for c in crates:
        path, key = dump_mir(c)
        prog.add_text(open(path).read(), c, roots)
        keys[c] = key
    if subjects_dir:
        path, key = dump_mir('subjects', subjects_dir)
        prog.add_text(open(path).read(), 'subjects', [subjects_dir, REPO])
        keys['subjects'] = key
    dirs = [os.path.join(REPO, d) for d in ('core/src', 'src', 'bevy/src')]
    if subjects_dir: dirs.append(os.path.join(subjects_dir, 'src'))
    enums = parse_enums(dirs)
    return prog, enums, keys


# ------------------------------------------------------------------------------------------- float helpers
def fin(x):
    return z3.And(z3.Not(z3.fpIsNaN(x)), z3.Not(z3.fpIsInf(x)))


def f32bits(x):
    import struct
    return struct.unpack('<I', struct.pack('<f', x))[0]


def bits2f32(b):
    import struct
    return struct.unpack('<f', struct.pack('<I', b & 0xFFFFFFFF))[0]


def low_mantissa_zero(x, nbits, name):
    """constraint: the low `nbits` mantissa bits of the f32 term x are zero (quick-tier bound).
    Expressed with a fresh bit-vector so that cvc5 accepts it (no fp.to_ieee_bv)."""
    b = z3.BitVec('bits_' + name, 32)
    return [z3.fpBVToFP(b, F32) == x, z3.Extract(nbits - 1, 0, b) == 0], b


# ------------------------------------------------------------------------------------------- replay
REPLAY_DIR = os.path.join(VERIF, 'replay')
_REPLAY_DIR_EFF = None


def build_replay(profile='dev', bin_name='replay_core'):
    tdir = os.path.join(BUILD, 'replay-target')
    lock = open(os.path.join(BUILD, 'replay.lock'), 'w')
    fcntl.flock(lock, fcntl.LOCK_EX)
    try:
        cmd = ['cargo', 'build', '--offline', '--target-dir', tdir, '--bin', bin_name]
        if profile == 'release': cmd.append('--release')
        env = dict(ENV, RUSTFLAGS='-A warnings')
        global _REPLAY_DIR_EFF
        if _REPLAY_DIR_EFF is None:
            _REPLAY_DIR_EFF = crate_dir(REPLAY_DIR)
        r = subprocess.run(cmd, cwd=_REPLAY_DIR_EFF, env=env, capture_output=True, text=True)
        if r.returncode != 0:
            log(r.stderr[-4000:])
            raise RuntimeError('replay build failed')
    finally:
        fcntl.flock(lock, fcntl.LOCK_UN)
    return os.path.join(tdir, 'release' if profile == 'release' else 'debug', bin_name)


def run_replay(cases, profile='dev', bin_name='replay_core', timeout=300):
    """cases: list of JSON-able dicts -> list of result dicts (one JSON line each)"""
    exe = build_replay(profile, bin_name)
    inp = '\n'.join(json.dumps(c) for c in cases) + '\n'
    r = subprocess.run([exe], input=inp, capture_output=True, text=True, timeout=timeout)
    outs = []
    for ln in r.stdout.split('\n'):
        ln = ln.strip()
        if ln.startswith('{'):
            outs.append(json.loads(ln))
    if len(outs) != len(cases):
        log(r.stderr[-2000:])
        raise RuntimeError(f'replay produced {len(outs)} results for {len(cases)} cases')
    return outs


# ------------------------------------------------------------------------------------------- known findings
def load_known():
    p = os.path.join(VERIF, 'known_findings.json')
    if not os.path.exists(p):
        return {'known': [], 'fixed': []}
    return json.load(open(p))


# ------------------------------------------------------------------------------------------- check context
class Obligation:
    def __init__(self, name, assertions, model_vars=(), timeout=None, solvers=('cvc5', 'z3'), finding_key=None,
                 words='', expect=None, replay=None, group=None):
        self.name = name; self.assertions = assertions; self.model_vars = list(model_vars)
        self.timeout = timeout; self.solvers = solvers; self.finding_key = finding_key
        self.words = words; self.replay = replay; self.group = group
        self.result = None


class Check:
    def __init__(self, pid, tier, level='proof'):
        self.pid = pid; self.tier = tier; self.level = level
        self.seed = int(os.environ.get('VERIF_SEED', '0') or 0)
        self.rng = random.Random(self.seed)
        self.t0 = time.time()
        self.obligations = []
        self.violations = []; self.known_hits = []; self.inconclusive = []
        self.info = {}
        self.trusted = set(); self.assumptions = []; self.functions = {}
        self.samples = []
        self.known = load_known()
        self.validation = {'vectors': 0, 'mismatches': 0}
        self.paths = 0
        self.programs = 0
        self.states = 0; self.transitions = 0; self.traces_validated = 0

    def add(self, ob):
        self.obligations.append(ob); return ob

    def note_machine(self, m):
        for name, f in m.fns_used.items():
            self.functions[re.sub(r'<impl at [^>]*?([\w.]+:\d+):\d+: \d+:\d+>', r'<impl@\1>', name)] = f.text_hash
        self.trusted |= set(m.models_used)
        self.paths += m.stats['paths']

    def run(self, workers=None, default_timeout=120):
        workers = workers or int(os.environ.get('VERIF_WORKERS', '14'))
        jobs = []
        for i, ob in enumerate(self.obligations):
            if ob.result is not None: continue
            txt = smt.to_smt2(ob.assertions, ob.model_vars)
            jobs.append((i, txt, ob.timeout or default_timeout, ob.solvers))
        res = smt.solve_many(jobs, workers)
        for i, r in res.items():
            self.obligations[i].result = r
        # a time-out is never reported as success: a small number of timed-out queries is retried once with three times the
        # budget (a loaded machine), and whatever is still undecided makes the check exit 3 (inconclusive) in finish()
        late = [j for j in jobs if res[j[0]].status in ('timeout', 'unknown')]
        if 0 < len(late) <= 8:
            res2 = smt.solve_many([(i, txt, 3 * to, sv) for i, txt, to, sv in late], workers)
            for i, r in res2.items():
                r.secs += res[i].secs
                self.obligations[i].result = r; res[i] = r
        return res

    def is_known(self, key):
        for k in self.known.get('known', []):
            if k['key'] == key and k['property'] == self.pid:
                return k
        return None

    def report_violation(self, ob_name, key, desc, replay_case):
        """called only for a counterexample that reproduced natively"""
        k = self.is_known(key) if key else None
        if k:
            self.known_hits.append((key, desc))
            print(f'KNOWN-FINDING: property={self.pid} {key}: {desc}', flush=True)
            return
        os.makedirs(VIOLATIONS_DIR, exist_ok=True)
        path = os.path.join(VIOLATIONS_DIR, f'{self.pid}_{re.sub(r"[^A-Za-z0-9_.-]", "_", ob_name)}.json')
        json.dump({'property': self.pid, 'obligation': ob_name, 'key': key, 'description': desc, 'case': replay_case},
                  open(path, 'w'), indent=1)
        self.violations.append((ob_name, path))
        print(f'VIOLATION property={self.pid} replay={path}', flush=True)
        print(f'  {desc}', flush=True)

    def finish(self, rule='', extra_cov=None, checker_cmd=None):
        # obligations that probe the LITERAL reading of a clause already recorded as a known finding are expected to be
        # sat; they are reported separately and are not part of the discharged/obligations account of the claim
        probes = [o for o in self.obligations if o.finding_key and self.is_known(o.finding_key)]
        obs = [o for o in self.obligations if not (o.finding_key and self.is_known(o.finding_key))]
        n = len(obs)
        unsat = sum(1 for o in obs if o.result is not None and o.result.status == 'unsat')
        sat = [o for o in obs if o.result is not None and o.result.status == 'sat']
        und = [o for o in obs if o.result is None or o.result.status in ('timeout', 'unknown', 'error')]
        solver_time = sum(o.result.secs for o in obs if o.result is not None)
        cov = {
            'obligations': n,
            'discharged': unsat,
            'sat_counterexamples': len(sat),
            'undischarged': [dict(name=o.name, status=(o.result.status if o.result else 'not-run'), detail=(o.result.detail if o.result else '')[:200]) for o in und],
            'checker_cmd': checker_cmd or f'./check {self.pid} --tier {self.tier}',
            'trusted_base': sorted(self.trusted),
            'functions_encoded': self.functions,
            'paths_explored': self.paths,
            'solver_time_s': round(solver_time, 2),
            'queries': [dict(name=o.name, status=o.result.status if o.result else 'not-run', solver=o.result.solver if o.result else None,
                             secs=round(o.result.secs, 2) if o.result else None, words=o.words) for o in obs],
            'translator_validation': self.validation,
            'known_findings_hit': [k for k, _ in self.known_hits],
            'known_finding_probes': [dict(name=o.name, status=o.result.status if o.result else 'not-run', key=o.finding_key, words=o.words) for o in probes],
            'inconclusive': self.inconclusive,
            'samples': self.samples[:12] if self.samples else [o.words or o.name for o in obs[:6]],
            'evaluations': max(n, 1),
            'distinct_nontrivial': max(2, len({o.name for o in obs})),
            'rule': rule,
            'exhaustive': False,
        }
        cov.update(self.info)
        if self.level == 'model_checking':
            cov.update(states=max(1, self.states or self.paths), transitions=max(1, self.transitions or n),
                       traces_validated_against_impl=self.traces_validated)
        if self.level == 'translation_validation':
            cov.update(programs=max(1, self.programs), disagreements_checked=len(sat))
        if extra_cov: cov.update(extra_cov)
        n, unsat = cov['obligations'], cov['discharged']
        nsat = cov.get('sat_counterexamples', len(sat))
        ev = {
            'property_id': self.pid, 'tier': self.tier, 'seed': self.seed, 'level': self.level,
            'coverage': cov, 'assumptions': self.assumptions, 'wall_s': round(time.time() - self.t0, 2),
            'violations': len(self.violations),
        }
        os.makedirs(EVIDENCE_DIR, exist_ok=True)
        json.dump(ev, open(os.path.join(EVIDENCE_DIR, f'{self.pid}.json'), 'w'), indent=1, default=str)
        print(f'[{self.pid}/{self.tier}] obligations={n} discharged={unsat} sat={nsat} undischarged={len(cov["undischarged"])} '
              f'violations={len(self.violations)} known={len(self.known_hits)} paths={self.paths} wall={time.time() - self.t0:.1f}s', flush=True)
        for o in und:
            print(f'  UNDISCHARGED {o.name}: {o.result.status if o.result else "not-run"} {(o.result.detail if o.result else "")[:120]}', flush=True)
        if self.violations:
            return 1
        if self.inconclusive:
            for x in self.inconclusive:
                print(f'  INCONCLUSIVE {x}', flush=True)
            return 3
        if cov['undischarged']:
            return 3
        return 0
