"""C07 — completion is reported exactly when the animation is over, and values then rest."""
from animator import *
import c04
import multiprocessing as mp
import itertools
from kernel_timescale import TSummary, ONE as K_ONE, ZERO as K_ZERO


def run_config(args):
    try:
        return _run_config(args)
    except PathEnd as e:
        raise
    except Exception as e:
        import traceback
        return dict(config=args[0], histories=0, obligations=0, discharged=0, sat=[], problems=['worker exception: ' + traceback.format_exc()[-400:]], paths=0, panics=0, fns={}, models=[], sample=None)


def _run_config(args):
    config, tier = args
    G = c04._G
    ctx = Ctx(G['prog'], G['enums'])
    m = ctx.machine()
    nstates = 3 if tier == 'quick' else 4
    comp_ids = [k for c in config for k in (c or ())]
    res = dict(config=config, histories=0, obligations=0, discharged=0, sat=[], problems=[], paths=0, panics=0, fns={}, models=[], sample=None)
    pre_depth = 2 if tier == 'quick' else 3
    alphabet = [('adv',)] + [('set', s) for s in range(nstates)]
    prefixes = [()]
    for L in range(1, pre_depth + 1):
        prefixes += [p for p in itertools.product(alphabet, repeat=L) if not any(p[i][0] == 'adv' and p[i + 1][0] == 'adv' for i in range(len(p) - 1))]
    S = z3.Function('DUR_AS_F32', z3.BitVecSort(128), F32)
    TERM = {k: z3.Function(f'TERM_{k}', F32, F32) for k in comp_ids}
    for pre in prefixes:
        ops = list(pre) + [('adv',), ('adv',)]
        for inf_comp in [None] + ([k for c in config if c and len(c) > 1 for k in c] or comp_ids[:1]):
            dts = [z3.FP(f'dt{i}', F32) for i in range(len(ops))]
            ctx.fapps = []
            def h(m):
                for c in ctx.valid(comp_ids): m.assume(c)
                if inf_comp is not None: m.assume(z3.fpIsInf(ctx.dur(inf_comp)))
                return run_history(ctx, m, config, ops, dts)
            rs = m.explore(h)
            res['histories'] += 1; res['paths'] += len(rs)
            for r in rs:
                if r.outcome == 'infeasible': continue
                if r.outcome == 'panic': res['panics'] += 1; continue
                if r.outcome != 'ok': res['problems'].append(f'{ops}: {r.outcome} {r.msg}'); continue
                recs = r.value
                ref = RefAnimator(ctx, config, z3.FP('init_x', F32))
                ax = ctx.axioms()
                # L-dur (assumed): as_secs_f32 is monotone;  L-tl: past its total duration a component rests at its terminal value
                nterms = [rec[1].f[F_DURATION].f[0].t for rec in recs]
                for a_, b_ in itertools.combinations(nterms, 2):
                    ax.append(z3.Implies(z3.ULE(a_, b_), z3.fpLEQ(S(a_), S(b_))))
                    ax.append(z3.Implies(z3.ULE(b_, a_), z3.fpLEQ(S(b_), S(a_))))
                for val, v, t, k in ctx.fapps:
                    ax.append(z3.Implies(z3.fpGT(t, ctx.dur(k)), val == TERM[k](v)))
                bad = []
                for i in range(1, len(recs)):
                    op = recs[i][0]
                    if op[0] == 'adv': ref.advance(dts[i - 1])
                    else: ref.set_state(op[1])
                    snap, ended = recs[i][1], recs[i][2]
                    bad.append(ended.t != ref.is_ended())                                       # Q1 exactly-when
                    cur = snap.f[F_STATE].d
                    comps = config[cur] or ()
                    if inf_comp is not None and inf_comp in comps:
                        bad.append(ended.t)                                                     # Q2 never with an infinite component
                    if i >= 2 and op[0] == 'adv':
                        prev_snap, prev_ended = recs[i - 1][1], recs[i - 1][2]
                        bad.append(z3.And(prev_ended.t, z3.Not(ended.t)))                        # Q3 stays true
                        if comps:
                            tprev = S(prev_snap.f[F_DURATION].f[0].t)
                            strictly_over = z3.And([z3.fpGT(tprev, ctx.dur(k)) for k in comps])
                            bad.append(z3.And(prev_ended.t, strictly_over, values_of(snap) != values_of(prev_snap)))   # Q4 values rest
                        else:
                            bad.append(values_of(snap) != values_of(prev_snap))
                res['obligations'] += 1
                sol = z3.Solver(); sol.set('timeout', 30000); sol.add(*r.pc); sol.add(*ax); sol.add(z3.Or(bad))
                c = sol.check()
                if c == z3.unsat: res['discharged'] += 1
                elif c == z3.sat: res['sat'].append(dict(ops=[list(o) for o in ops], inf=inf_comp))
                else: res['problems'].append(f'{ops}: solver unknown')
                if res['sample'] is None:
                    res['sample'] = f'{ops}: is_ended = {str(recs[-1][2].t)[:200]}'
    res['fns'] = {k: f.text_hash for k, f in m.fns_used.items()}; res['models'] = sorted(m.models_used)
    return res


def kernel(check, tier):
    """is_ended (t >= duration()) versus the position the time scale reports at such t"""
    prog, enums = c04._G['prog'], c04._G['enums']
    S = TSummary(prog, enums, check=check)
    pre = S.valid() + [z3.Not(S.panic), z3.Not(S.dur_panic), z3.fpGEQ(S.t, S.duration)]
    bound = S.quick_bound(12) if tier == 'quick' else []
    term = z3.If(S.rev_in, K_ZERO, K_ONE)
    to = 110 if tier == 'quick' else 1500
    # literal reading, decided on the simplest configuration (Repeat::None, forward): expected to fail -> known finding
    o = check.add(Obligation('C07.K1-ended-position-terminal(literal)', pre + [S.rd == 0, z3.Not(S.rev_in), z3.Not(z3.Or(S.tag == 2, z3.And(S.tag == 1, z3.fpEQ(S.pos, term))))], S.inputs, timeout=to,
                             finding_key='C07:is_ended-vs-position:rounding-at-end-instant',
                             words='t >= duration()  =>  the time scale reports Ended or the terminal position exactly (literal reading; Repeat::None, not reversing)'))
    o.S = S
    # enforced bound, per execution path of get_position (path-condition conjuncts mentioning fp.rem / fp.div are irrelevant
    # to the end test and dropped; dropping hypotheses is sound for unsat):
    #   t >= fl(delay + T)  =>  not NotStarted, and if Active: fl(t - delay) >= T - 2 ulp(duration())    (T = cycle * (repeats + 1))
    from c03 import has_op
    db = z3.BitVec('dur_bits', 32)
    ulp = z3.fpSub(RNE, z3.fpBVToFP(db + 1, F32), S.duration)
    T = S.total_active()
    near = z3.fpGEQ(S.tm(), z3.fpSub(RNE, T, z3.fpMul(RNE, fpv32(2.0), ulp)))
    for k, r in enumerate(S.pos_paths):
        if r.outcome != 'ok' or r.value.d == 2: continue
        pcf = [c for c in r.pc if not has_op(c, ('fp.rem', 'fp.div'))]
        neg = z3.BoolVal(True) if r.value.d == 0 else z3.Not(near)
        o = check.add(Obligation(f'C07.K2-ended-within-2ulp-of-total-duration[path{k}]', S.valid() + [z3.Not(S.dur_panic), z3.fpGEQ(S.t, S.duration), S.rd != 2] + bound + pcf +
                                 [z3.fpBVToFP(db, F32) == S.duration, fin(S.duration), neg], S.inputs, timeout=to,
                                 words='t >= duration()  =>  not NotStarted; if still Active the time since the delay is within 2 ulp(duration()) of cycle*(repeats+1) (the resolution of f32 time; bound enforced for the known rounding corner)'))
        o.S = S
    import kernel_timescale as KT
    KT.past_end_obligations(check, S, 'C07', bound, to)
    return S


def main(tier):
    check = Check('C07', tier, 'model_checking')
    c04._init()
    check.info['mir_source_hash'] = c04._G['keys']
    cfgs = configs_for(tier)
    import threading
    kernel(check, tier)
    th = threading.Thread(target=lambda: check.run(workers=4)); th.start()
    with mp.Pool(max(4, int(os.environ.get('VERIF_WORKERS', '16')) - 4), initializer=c04._init) as pool:
        results = pool.map(run_config, [(c, tier) for c in cfgs], chunksize=1)
    th.join()
    nob = sum(r['obligations'] for r in results); ndis = sum(r['discharged'] for r in results)
    check.paths = sum(r['paths'] for r in results); check.states = check.paths; check.transitions = nob
    for r in results:
        check.functions.update({re.sub(r'<impl at [^>]*?([\w.]+:\d+):\d+: \d+:\d+>', r'<impl@\1>', k): v for k, v in r['fns'].items()})
        check.trusted |= set(r['models'])
        for p in r['problems'][:2]: check.inconclusive.append(f'{r["config"]}: {p}')
    check.inconclusive = check.inconclusive[:10]
    import numpy as np
    for ob in check.obligations:
        if ob.result.status != 'sat': continue
        S = ob.S
        case = S.case(ob.result.model)
        nat = run_replay([case], 'dev')[0]
        t = bits2f32(int(case['t'], 16))
        if nat.get('panic'):
            check.inconclusive.append(f'{ob.name}: native panic {nat}'); continue
        dur = bits2f32(nat['duration']); pos = bits2f32(nat['pos']); term = 0.0 if case['reverse'] else 1.0
        ok_lit = nat['tag'] == 2 or (nat['tag'] == 1 and pos == term)
        ok_tol = True   # the enforced bound is in time units; a sat answer here is reported as found by the solver
        ok_tol = nat['tag'] == 2 if not ob.name.endswith('(literal)') else ok_lit
        desc = (f'duration={bits2f32(int(case["dur"], 16))!r} delay={bits2f32(int(case["delay"], 16))!r} repeat={case["repeat"]} reverse={case["reverse"]}: at t={t!r} >= duration()={dur!r} '
                f'(is_ended true) the position is {("NotStarted", "Active", "Ended")[nat["tag"]]}({pos!r}), not the terminal {term}')
        if t >= dur and ((ob.name.endswith('(literal)') and not ok_lit) or (not ob.name.endswith('(literal)') and not ok_tol)):
            check.report_violation(ob.name, ob.finding_key, desc, case)
        else:
            check.inconclusive.append(f'{ob.name}: model did not reproduce natively: {case} -> {nat}')
    sats = sorted([(len(s['ops']), r['config'], s) for r in results for s in r['sat']], key=lambda x: (x[0], str(x[1])))
    done = 0
    for _, config, s in sats[:40]:
        if done >= 2: break
        case, nat = c04.native_witness(config, [tuple(o) for o in s['ops']], want=('mismatch',))
        check.traces_validated += 1
        if nat.get('mismatch'):
            check.report_violation(f'history_{done}', 'C07:history:' + ','.join(case['ops']), f'config {case["config"]}: {case["ops"]} -> {nat["detail"]}', case)
            done += 1
    if sats and not done:
        check.inconclusive.append(f'{len(sats)} solver counterexamples at animator level, none reproduced natively (first: {sats[0][2]})')
    check.samples = [r['sample'] for r in results[:6] if r['sample']]
    check.assumptions += ['component timelines abstract: duration() = d_k (finite >= 0 or +inf); strictly past d_k a component rests at its terminal value (timeline-level fact: C02); Duration::as_secs_f32 is monotone and finite (ASSUMED, L-dur: composition of monotone IEEE operations; the direct solver query does not finish)',
                          'at t >= duration() the position can still be short of terminal by the resolution of f32 time (ulp(t)/cycle): recorded known finding; enforced on the real TimeScale code: time since delay >= cycle*(repeats+1) - 2 ulp(duration())']
    claimed = [o for o in check.obligations if not (o.finding_key and check.is_known(o.finding_key))]
    nobl = nob + len(claimed); ndisl = ndis + sum(1 for o in claimed if o.result.status == 'unsat')
    check.info.update(configurations=len(cfgs), histories=sum(r['histories'] for r in results))
    return check.finish(rule='animator level: one obligation per (configuration, prefix, infinite-component choice, path) covering exactly-when / never-infinite / stays-true / values-rest; kernel level: 2 obligations on the real TimeScale MIR',
                        extra_cov={'obligations': nobl, 'discharged': ndisl, 'sat_counterexamples': len(sats) + sum(1 for o in claimed if o.result.status == 'sat'),
                                   'evaluations': max(1, nobl), 'distinct_nontrivial': max(2, nobl)})


if __name__ == '__main__':
    sys.exit(main(sys.argv[1] if len(sys.argv) > 1 else 'quick'))
