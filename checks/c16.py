"""C16 — animator! produces exactly the animator the builder API would (translation validation)."""
from structural import *
import c15, gen_macros


def main(tier):
    check = Check('C16', tier, 'translation_validation')
    idx, prog, enums, keys = c15.load(tier)
    check.info['mir_source_hash'] = dict(keys)
    m = machine_for(prog, enums, uf_lerp=False, uf_ease=False)
    m.enum_map_len = 4
    # instantiation binding for the generic StateAnimatorBuilder<State, Timeline>: State = St, Timeline::Target = M2
    def default_hook(mm, q, callee):
        if q == 'State':
            return mm.do_call('<St as Default>::default', [], None)
        if 'Target' in str(q) or 'Target' in callee:
            return mm.do_call('<M2 as Default>::default', [], None)
        return NotImplemented
    m.default_hook = default_hook
    bad = []
    for e in idx['animator']:
        a, ea = c15.run_fn(m, prog, f'a_m{e["i"]}'); b, eb = c15.run_fn(m, prog, f'a_b{e["i"]}')
        if a is None or b is None:
            check.inconclusive.append(f'a{e["i"]} {e["macro"][:120]}: {ea or eb}'); continue
        ob = Obligation(f'C16.a{e["i"]}', [], words=f'{e["macro"][:220]}  ==  StateAnimatorBuilder chain (initial private state: timelines per state, current state, current values, pause record, time in state)')
        class R: pass
        r = R(); r.secs = 0.0; r.solver = 'structural-identity'; r.model = {}; r.detail = ''
        r.status = 'unsat' if struct_eq(m, m.alloc(a), m.alloc(b)) else 'sat'
        if r.status == 'sat': bad.append((f'a{e["i"]}', e))
        ob.result = r
        check.obligations.append(ob)
    check.note_machine(m)
    check.inconclusive = check.inconclusive[:10]
    check.programs = 2 * len(idx['animator'])
    if bad:
        nat = c15.native([n for n, _ in bad])
        for name, e in bad:
            if nat.get(name) == 'false':
                if len(check.violations) < 3:
                    check.report_violation(name, None, f'{e["macro"][:300]} behaves differently from the documented builder reading over a 12-operation history', {'kind': 'macro_native', 'item': name})
            else:
                check.inconclusive.append(f'{name}: structurally different animators that behave identically on the native history ({e["macro"][:120]})')
        if check.violations:
            check.inconclusive = [x for x in check.inconclusive if 'behave identically' not in x]
    check.assumptions += ['identical initial private state implies identical behaviour over any history (the animator is deterministic: C04/C05 encodings)',
                          'the grammar is covered by a generated finite family: with/without default clause, inline / expression / omitted default values, A | B arms, bracketed merged arms, `default` keyframe bodies, repeated arms, no arms',
                          'rejection of ill-formed blocks at compile time is not claimed']
    check.samples = [o.words for o in check.obligations[:3]] + [o.words for o in check.obligations[-2:]]
    return check.finish(rule='one obligation per generated animator! block (macro-built animator value vs builder-built animator value)',
                        extra_cov={'programs': 2 * len(idx['animator']), 'disagreements_checked': len(bad)})


if __name__ == '__main__':
    sys.exit(main(sys.argv[1] if len(sys.argv) > 1 else 'quick'))
