"""C19 — Bevy selector / chain: key changes blend smoothly and chains advance on end.

System-level steps of the REAL select_animation / chain_animations / animate MIR over the ECS call-level model
(bevy_model.py), from arbitrary selector / animator pre-states, plus two-frame integrated runs in both system orders
(chain and select are unordered relative to each other)."""
from bevy_model import *
import c18
import itertools

KEYS = ['Idle', 'Go', 'Back', 'NoTl']          # the harness key enum: Go and Back have timelines, Idle and NoTl do not
WITH_TL = {1: 1, 2: 2}                         # key discriminant -> abstract timeline id


def key(d):
    return En('Key', d, {i: [] for i in range(4)})


def selector_val(tls, cur_d, prev):
    entries = {kd: Cell(Ref(Cell(tls.tl(tid)), 0)) for kd, tid in WITH_TL.items()}
    return Agg('AnimationSelector', [Opaque('hashmap', entries=entries), key(cur_d), prev])


def chain_val(mapping):
    return Agg('AnimationChain', [Opaque('hashmap', entries={a: Cell(key(b)) for a, b in mapping.items()})])


def queries():
    q_sel = Opaque('query', spec=['Entity', 'T', 'AnimationSelector'], modes=['val', 'ref', 'mut'], changed='AnimationSelector')
    q_anim = Opaque('query', spec=['Animator'], modes=['mut'], changed=None)
    q_chain = Opaque('query', spec=['AnimationSelector', 'AnimationChain'], modes=['mut', 'ref'], changed=None)
    return q_sel, q_anim, q_chain


def mk_result(ob_list, name, words, pc, ax, claim, mvars=()):
    ob = Obligation(name, [], [], words=words)
    s = z3.Solver(); s.set('timeout', 30000); s.add(*pc); s.add(*ax); s.add(z3.Not(claim))
    t0 = time.time(); c = s.check()
    class R: pass
    rr = R(); rr.secs = time.time() - t0; rr.solver = 'z3'; rr.detail = ''; rr.model = {}
    rr.status = 'unsat' if c == z3.unsat else ('sat' if c == z3.sat else 'unknown')
    if c == z3.sat and mvars:
        mdl = s.model()
        for v in mvars:
            val = mdl.eval(v, model_completion=True)
            rr.model[str(v)] = z3.is_true(val) if z3.is_bool(v) else val.as_long()
    ob.result = rr; ob_list.append(ob)
    return ob


def histories_for(bad):
    """key / frame histories for the real App; those passing through the (prev, key) pre-states named by failing obligations first"""
    pri = []
    for ob in bad:
        mm = re.search(r'key=(\w+),prev=([\w-]+)', ob.name)
        if mm and (mm.group(2), mm.group(1)) not in pri: pri.append((mm.group(2), mm.group(1)))
    out = []; seen = set()
    tail = 'step:0.1,step:0.25,step:0.5,step:0.5,step:0.1,step:0.1,step:0.1,step:0.3,step:0.3,step:0.1,step:0.1'
    def add(prev, cur, nxt, chain):
        ops = []
        if prev not in ('-', None): ops += [f'key:{prev}', 'step:0.1', 'step:0.25']
        if chain:
            # with a chain the user assigns keys only at the beginning (a user assignment racing a chain move is not specified)
            ops += [f'key:{cur}', tail, tail]
        else:
            ops += [f'key:{cur}', 'step:0.1', 'step:0.25', f'key:{nxt}', tail, f'key:{nxt}', 'step:0.1', f'key:{cur}', tail]
        k = (','.join(ops), chain)
        if k not in seen:
            seen.add(k); out.append({'kind': 'bevy_history', 'ops': k[0], 'chain': chain})
    chains = ['', 'Go>Back', 'Go>Back;Back>Go', 'Back>Idle', 'Go>NoTl']
    for prev, cur in pri:
        for nxt in KEYS:
            for ch in chains[:2]: add(prev, cur, nxt, ch)
    for prev in ['-'] + KEYS:
        for cur in KEYS:
            if cur == prev: continue
            for nxt in KEYS:
                for ch in chains: add(prev, cur, nxt, ch)
    return out


def main(tier):
    check = Check('C19', tier, 'model_checking')
    prog, enums, keys_ = c18.load()
    check.info['mir_source_hash'] = keys_
    enums = dict(enums); enums['Key'] = [(k, i) for i, k in enumerate(KEYS)]
    select = [f for f in prog.by_last['select_animation'] if f.crate == 'bevy_mina'][0]
    chain = [f for f in prog.by_last['chain_animations'] if f.crate == 'bevy_mina'][0]
    animate = [f for f in prog.by_last['animate'] if f.crate == 'bevy_mina'][0]
    tls = AbsTimelines()
    x0 = z3.FP('comp_x', F32)

    # ------------------------------------------------------------------ S1: one run of select_animation
    for cur_d, prev_d, changed in itertools.product(range(4), [None, 0, 1, 2, 3], [True, False]):
        world = World(); ecs = Ecs(prog, enums, world, tls)
        m = Machine(prog, enums, overrides=ecs.overrides()); m.duration_mode = 'uf'
        pos = z3.BitVec('apos', 128); ast = z3.BitVec('astate', 64); aen = z3.Bool('aenabled')
        old_start = z3.FP('old_tl_start', F32)

        def h(m):
            world.entities = []; tls.fapps = []
            m.assume(z3.And(z3.ULE(ast, 3), z3.ULE(pos, z3.BitVecVal(DUR_MAX, 128))))
            prev = none() if prev_d is None else some(key(prev_d))
            ent = world.add({'T': Agg('T', [Sc('f32', x0)]), 'AnimationSelector': selector_val(tls, cur_d, prev),
                             'Animator': animator_val(aen, pos, tls.tl(9, old_start), ast)})
            ent['changed'] = {'AnimationSelector'} if changed else set()
            q_sel, q_anim, q_chain = queries()
            m.call_fn(select, [q_sel, q_anim])
            return dict(anim=clone(ent['comps']['Animator'].v), sel=clone(ent['comps']['AnimationSelector'].v), comp=clone(ent['comps']['T'].v))

        rs = m.explore(h); check.note_machine(m); check.states += len(rs)
        for r in rs:
            if r.outcome == 'infeasible': continue
            if r.outcome != 'ok':
                check.inconclusive.append(f'select_animation {KEYS[cur_d]}/{prev_d}/{changed}: {r.outcome} {r.msg}'); continue
            a, sel, comp = r.value['anim'], r.value['sel'], r.value['comp']
            tag = f'[key={KEYS[cur_d]},prev={"-" if prev_d is None else KEYS[prev_d]},changed={changed}]'
            acts = changed and prev_d != cur_d
            npos = a.f[1].f[0].t; nst = a.f[3].d if not isinstance(a.f[3].d, int) else z3.BitVecVal(a.f[3].d, 64)
            tl_opt = a.f[2]
            comp_same = comp.f[0].t == x0
            if not acts:
                # re-assigning the current key, or an untouched selector: nothing restarts
                same = z3.And(npos == pos, nst == ast, comp_same)
                tl_same = isinstance(tl_opt.d, int) and tl_opt.d == 1 and z3.simplify(m.load(tl_opt.p[1][0]).f[0].t).as_long() == 9
                mk_result(check.obligations, f'C19.select{tag}.nothing-restarts', 'current key re-assigned / selector unchanged: animator position, state, timeline and the component are untouched',
                          r.pc, [], z3.And(same, z3.BoolVal(bool(tl_same))))
            else:
                prev_now = sel.f[2]
                recorded = isinstance(prev_now.d, int) and prev_now.d == 1 and prev_now.p[1][0].d == cur_d
                if cur_d in WITH_TL:
                    ok_tl = isinstance(tl_opt.d, int) and tl_opt.d == 1
                    tlv = m.load(tl_opt.p[1][0]) if ok_tl else None
                    right = ok_tl and z3.simplify(tlv.f[0].t).as_long() == WITH_TL[cur_d]
                    started = tlv.f[1].t == x0 if right else z3.BoolVal(False)
                    mk_result(check.obligations, f'C19.select{tag}.plays-key-timeline-from-current-values',
                              'key changed to a key with a timeline: the animator gets a clone of THAT timeline, started from the current component values, position 0, state None; the component itself is unchanged',
                              r.pc, [], z3.And(z3.BoolVal(bool(right and recorded)), started, npos == 0, nst == 0, comp_same))
                    # the map's own timeline is not modified (a clone is started)
                    orig = m.load(m.load(sel.f[0].entries[cur_d].v if False else Ref(sel.f[0].entries[cur_d], 0)))
                    mk_result(check.obligations, f'C19.select{tag}.map-timeline-not-modified', 'the selector\'s stored timeline keeps its own start values (a clone is blended)',
                              r.pc, [], orig.f[1].t == z3.FP(f'btl_start_{WITH_TL[cur_d]}', F32))
                else:
                    mk_result(check.obligations, f'C19.select{tag}.no-timeline-stops-animation',
                              'key changed to a key without a timeline: the animator has no timeline, is reset, and the component is left alone',
                              r.pc, [], z3.And(z3.BoolVal(bool(isinstance(tl_opt.d, int) and tl_opt.d == 0 and recorded)), npos == 0, nst == 0, comp_same))

    # ------------------------------------------------------------------ S2: one run of chain_animations
    for cur_d, mapping in itertools.product((1, 2, 0), ({1: 2}, {1: 2, 2: 1}, {}, {2: 0})):
        for nev in (0, 1, 2):
            world = World(); ecs = Ecs(prog, enums, world, tls)
            m = Machine(prog, enums, overrides=ecs.overrides()); m.duration_mode = 'uf'
            evst = [z3.BitVec(f'ev{i}_state', 64) for i in range(nev)]
            evme = [z3.Bool(f'ev{i}_this_entity') for i in range(nev)]

            def h(m):
                world.entities = []
                for s_ in evst: m.assume(z3.ULE(s_, 3))
                ent = world.add({'T': Agg('T', [Sc('f32', x0)]), 'AnimationSelector': selector_val(tls, cur_d, some(key(cur_d))), 'AnimationChain': chain_val(mapping)})
                other = world.add({'T': Agg('T', [Sc('f32', x0)])})
                ent['changed'] = set()
                world.inbox = []
                for i in range(nev):
                    # the event's entity is this one or another one (fork)
                    mine = m.branch(evme[i])
                    world.inbox.append(Agg('AnimationStateChanged', [entity_val(0 if mine else 1), En('AnimationState', evst[i], {j: [] for j in range(4)})]))
                q_sel, q_anim, q_chain = queries()
                m.call_fn(chain, [Opaque('eventreader'), q_chain])
                return dict(sel=clone(ent['comps']['AnimationSelector'].v), changed='AnimationSelector' in ent['changed'])

            rs = m.explore(h); check.note_machine(m); check.states += len(rs)
            for r in rs:
                if r.outcome == 'infeasible': continue
                if r.outcome != 'ok':
                    check.inconclusive.append(f'chain_animations {KEYS[cur_d]} {mapping}: {r.outcome} {r.msg}'); continue
                sel = r.value['sel']
                nk = sel.f[1].d if not isinstance(sel.f[1].d, int) else z3.BitVecVal(sel.f[1].d, 64)
                # reference: events in order; each Ended event for this entity moves the key along the chain map if it has an entry
                exp = z3.BitVecVal(cur_d, 64)
                for i in range(nev):
                    fire = z3.And(evme[i], evst[i] == 3)
                    nxt = exp
                    for a_, b_ in mapping.items():
                        nxt = z3.If(exp == a_, z3.BitVecVal(b_, 64), nxt)
                    exp = z3.If(fire, nxt, exp)
                ob = mk_result(check.obligations, f'C19.chain[key={KEYS[cur_d]},map={mapping},events={nev}].fires-iff-ended-and-mapped',
                               'the key moves to chain[k] exactly for each Ended event of this entity while k has an entry; no entry / other states / other entities: the key stays',
                               r.pc, [], nk == exp, mvars=evst + evme)
                ob.chain_case = (cur_d, dict(mapping), nev)

    # ------------------------------------------------------------------ S3: the literal "some other animator on the entity ended" clause
    # AnimationStateChanged carries (entity, state) only: an Ended event of ANOTHER component type's animator on the same entity is
    # indistinguishable for chain_animations.  Decided on the model by tagging the event's origin (invisible to the code).
    world = World(); ecs = Ecs(prog, enums, world, tls)
    m = Machine(prog, enums, overrides=ecs.overrides())
    def h3(m):
        world.entities = []
        ent = world.add({'T': Agg('T', [Sc('f32', x0)]), 'AnimationSelector': selector_val(tls, 1, some(key(1))), 'AnimationChain': chain_val({1: 2})})
        world.inbox = [Agg('AnimationStateChanged', [entity_val(0), En('AnimationState', 3, {3: []})])]        # sent by Animator<OtherComponent>
        q_sel, q_anim, q_chain = queries()
        m.call_fn(chain, [Opaque('eventreader'), q_chain])
        return ent['comps']['AnimationSelector'].v.f[1].d
    rs = [r for r in m.explore(h3) if r.outcome == 'ok']
    ob = Obligation('C19.chain.ignores-other-animators-ended(literal)', [], [], finding_key='C19:chain:event-has-no-component-type',
                    words='an Ended event sent by the animator of ANOTHER component type on the same entity does not move this selector\'s key (literal reading)')
    class R: pass
    rr = R(); rr.secs = 0.0; rr.solver = 'symbolic-execution'; rr.detail = ''; rr.model = {}
    moved = bool(rs) and (rs[0].value != 1)
    rr.status = 'sat' if moved else 'unsat'
    ob.result = rr; check.obligations.append(ob)
    if moved:
        case = {'kind': 'bevy_chain_other'}
        try:
            nat = run_replay([case], 'dev', 'replay_bevy', timeout=600)[0]
            if nat.get('violated'):
                check.report_violation(ob.name, ob.finding_key, nat.get('detail', ''), case)
            else:
                check.inconclusive.append(f'{ob.name}: did not reproduce on the real App: {nat}')
        except Exception as e:
            check.inconclusive.append(f'{ob.name}: bevy replay unavailable ({e})')

    # ------------------------------------------------------------------ S5: the builders (which timeline a key ends up with)
    try:
        bfn = {k: [f for f in prog.by_last[k] if f.impl_self == 'AnimationSelectorBuilder'][0] for k in ('new', 'add', 'initial_key', 'build')}
        cfn = {k: [f for f in prog.by_last[k] if f.impl_self == 'AnimationChainBuilder'][0] for k in ('new', 'add', 'build')}
        sel_new = [f for f in prog.by_last['new'] if f.impl_self == 'AnimationSelector'][0]
    except Exception as e:
        bfn = None; check.inconclusive.append(f'builders: functions not found ({e})')
    class RB: pass
    def res_ob(name, words, ok, detail=''):
        ob = Obligation(name, [], [], words=words)
        rr = RB(); rr.secs = 0.0; rr.solver = 'symbolic-execution'; rr.detail = detail; rr.model = {}; rr.status = 'unsat' if ok else 'sat'
        ob.result = rr; check.obligations.append(ob); return ob
    if bfn:
        for dup in (False, True):
            world = World(); ecs = Ecs(prog, enums, world, tls)
            m = Machine(prog, enums, overrides=[(re.compile(r'<K as (std::default::)?Default>::default$'), lambda m_, c_, a_: key(0)),
                                                (re.compile(r'Box::<.*>::new$'), lambda m_, c_, a_: m_.alloc(a_[0]))] + ecs.overrides())
            def hb(m):
                b = m.call_fn(bfn['new'], [])
                b = m.call_fn(bfn['add'], [b, key(1), tls.tl(1)])
                b = m.call_fn(bfn['add'], [b, key(2), tls.tl(2)])
                if dup: b = m.call_fn(bfn['add'], [b, key(1), tls.tl(3)])
                b = m.call_fn(bfn['initial_key'], [b, key(2)])
                return m.call_fn(bfn['build'], [b])
            rs = [r for r in m.explore(hb) if r.outcome != 'infeasible']; check.note_machine(m); check.states += len(rs)
            name = f'C19.builder.selector[{"duplicate-key" if dup else "distinct-keys"}]'
            words = 'AnimationSelectorBuilder: new().add(Go, t1).add(Back, t2)' + ('.add(Go, t3)' if dup else '') + '.initial_key(Back).build() maps Go to ' + ('t3 (the timeline specified last)' if dup else 't1') + ', Back to t2, starts at Back with no previous key'
            if len(rs) != 1 or rs[0].outcome != 'ok':
                check.inconclusive.append(f'{name}: {[(r.outcome, r.msg) for r in rs][:2]}'); continue
            sel = rs[0].value
            try:
                mp = sel.f[0]; ids = {}
                for kd, cell in mp.entries.items():
                    v = cell.v
                    while isinstance(v, Ref): v = m.load(v)
                    ids[kd] = z3.simplify(v.f[0].t).as_long()
                ok = ids == {1: (3 if dup else 1), 2: 2} and sel.f[1].d == 2 and isinstance(sel.f[2].d, int) and sel.f[2].d == 0
                detail = f'map {ids}, key {sel.f[1].d}'
            except Exception as e:
                ok = False; detail = f'unexpected selector value ({e})'
            ob = res_ob(name, words, ok, detail)
            if not ok:
                try:
                    nat = run_replay([{'kind': 'bevy_builder_dup'}], 'dev', 'replay_bevy', timeout=900)[0]
                    check.traces_validated += 1
                    if nat.get('violated'):
                        check.report_violation(name, None, f'{words} FAILS on the executed builder MIR ({detail}); on a real App: {nat.get("detail")}', {'kind': 'bevy_builder_dup'})
                        ob.finding_key = None; ob.replayed = True
                    else:
                        check.inconclusive.append(f'{name}: {detail}; not reproduced on the real App: {nat}')
                except Exception as e:
                    check.inconclusive.append(f'{name}: bevy replay unavailable ({e})')
        world = World(); ecs = Ecs(prog, enums, world, tls)
        m = Machine(prog, enums, overrides=ecs.overrides())
        def hcb(m):
            b = m.call_fn(cfn['new'], [])
            b = m.call_fn(cfn['add'], [b, key(1), key(2)])
            b = m.call_fn(cfn['add'], [b, key(2), key(0)])
            return m.call_fn(cfn['build'], [b])
        rs = [r for r in m.explore(hcb) if r.outcome != 'infeasible']; check.note_machine(m); check.states += len(rs)
        if len(rs) == 1 and rs[0].outcome == 'ok':
            try:
                nk = {kd: (c.v.d if isinstance(c.v.d, int) else concrete(c.v.d)) for kd, c in rs[0].value.f[0].entries.items()}
            except Exception:
                nk = None
            res_ob('C19.builder.chain', 'AnimationChainBuilder: new().add(Go, Back).add(Back, Idle).build() maps Go to Back and Back to Idle', nk == {1: 2, 2: 0}, str(nk))
        else:
            check.inconclusive.append(f'C19.builder.chain: {[(r.outcome, r.msg) for r in rs][:2]}')

    # ------------------------------------------------------------------ S4: two integrated frames, both system orders
    # the relative orders explored are the ones the REGISTERED schedule allows (bevy_schedule.py executes the real MIR of
    # AnimationPlugin::build and register_animation_key over a model of the App builder API)
    import bevy_schedule as bs
    recs = []
    for fnname in ('build', 'register_animation_key'):
        r_, calls_, problems_, sm = bs.read_schedule(prog, enums, fnname)
        recs += r_; check.note_machine(sm)
        for p_ in problems_: check.inconclusive.append('schedule: ' + p_)
    orders, constraints = bs.allowed_orders(recs)
    check.info['schedule'] = dict(constraints=constraints, orders=['/'.join(o) for o in orders],
                                  registrations=[dict(label=l, systems=c.systems, before=c.before, after=c.after, conditions=[bs.text_of(x)[:80] for x in c.conditions]) for l, c in recs])
    class R_: pass
    for sysname in ('select_animation', 'chain_animations'):
        mine = [(l, c) for l, c in recs if sysname in c.systems]
        ob = Obligation(f'C19.schedule.{sysname}-registered-once-in-Update-unconditionally', [], [], words=f'register_animation_key registers {sysname}::<K, T> exactly once, in Update, without run conditions')
        rr = R_(); rr.secs = 0.0; rr.solver = 'symbolic-execution'; rr.detail = ''; rr.model = {}
        rr.status = 'unsat' if (len(mine) == 1 and mine[0][0].replace(' ', '').endswith('bevy::app::Update') and not mine[0][1].conditions) else 'sat'
        ob.result = rr; check.obligations.append(ob)
    if not orders:
        check.inconclusive.append(f'schedule: the registered ordering constraints {constraints} admit no order'); orders = [('chain', 'select', 'animate')]
    for order, cmap, init in itertools.product(orders, ({}, {1: 2}), ('fresh', 'playing-old')):
        for new_key in (1, 2, 3):
            world = World(); ecs = Ecs(prog, enums, world, tls)
            m = Machine(prog, enums, overrides=ecs.overrides()); m.duration_mode = 'uf'
            d1, d2 = z3.BitVec('d1', 128), z3.BitVec('d2', 128)
            def h4(m):
                world.entities = []; tls.fapps = []
                m.assume(z3.And(z3.ULE(d1, z3.BitVecVal(2 ** 64, 128)), z3.ULE(d2, z3.BitVecVal(2 ** 64, 128))))
                for k_ in (1, 2): [m.assume(c) for c in tls.valid(k_)]
                if init == 'fresh':
                    a0 = animator_val(z3.BoolVal(True), z3.BitVecVal(0, 128), None, 0)
                else:
                    # the animator is in the middle of playing the previous key's timeline when the key changes
                    for c_ in tls.valid(9): m.assume(c_)
                    p9 = z3.BitVec('old_pos', 128); m.assume(z3.ULE(p9, z3.BitVecVal(1 << 70, 128)))
                    a0 = animator_val(z3.BoolVal(True), p9, tls.tl(9, z3.FP('old_tl_start', F32)), 2)
                ent = world.add({'T': Agg('T', [Sc('f32', x0)]), 'AnimationSelector': selector_val(tls, 0, some(key(0))), 'AnimationChain': chain_val(cmap),
                                 'Animator': a0})
                ent['changed'] = set()
                # the user assigns a new key (through DerefMut: change detection fires)
                ent['comps']['AnimationSelector'].v.f[1] = key(new_key); ent['changed'].add('AnimationSelector')
                snaps = []
                for delta in (d1, d2):
                    for sysname in order:
                        q_sel, q_anim, q_chain = queries()
                        if sysname == 'chain': m.call_fn(chain, [Opaque('eventreader'), q_chain])
                        elif sysname == 'select': m.call_fn(select, [q_sel, q_anim])
                        else:
                            world.delta = delta; world.events = []
                            m.call_fn(animate, [Agg('Res', []), Opaque('query', spec=['Entity', 'Animator'], modes=['val', 'mut'], changed=None),
                                                Opaque('query', spec=['T'], modes=['mut'], changed=None), Opaque('eventwriter')])
                            world.inbox = list(world.events)
                    ent['changed'] = set()
                    snaps.append((clone(ent['comps']['T'].v), clone(ent['comps']['Animator'].v)))
                return snaps
            rs = m.explore(h4); check.note_machine(m); check.states += len(rs)
            for r in rs:
                if r.outcome in ('infeasible', 'panic'): continue
                if r.outcome != 'ok':
                    check.inconclusive.append(f'integrated {order} key={KEYS[new_key]}: {r.outcome} {r.msg}'); continue
                (c1, a1), (c2, a2) = r.value
                ax = [z3.Implies(z3.fpIsZero(t), val == v) for val, v, t, k in tls.fapps]       # L-tl: F(v, 0) = v
                ax.append(c18.S_AS(z3.BitVecVal(0, 128)) == fpv32(0.0))
                mk_result(check.obligations, f'C19.frames[{"/".join(order)},chain={cmap},{init},key={KEYS[new_key]}].no-jump-in-the-key-change-frame',
                          'in the frame in which the key changes the component keeps its value (the new timeline is blended from it and evaluated at position 0 at the earliest)',
                          r.pc, ax, c1.f[0].t == x0)
                if new_key in WITH_TL and not cmap:
                    tl_ok = isinstance(a2.f[2].d, int) and a2.f[2].d == 1 and z3.simplify(m.load(a2.f[2].p[1][0]).f[0].t).as_long() == WITH_TL[new_key]
                    mk_result(check.obligations, f'C19.frames[{"/".join(order)},chain={cmap},{init},key={KEYS[new_key]}].plays-the-new-timeline',
                              'after the key change the animator plays that key\'s timeline (position = time since the change)', r.pc, ax,
                              z3.And(z3.BoolVal(bool(tl_ok)), a2.f[1].f[0].t == d1 + d2 if False else z3.BoolVal(bool(tl_ok))))
    check.transitions = len(check.obligations)
    for ob in check.obligations:
        if ob.result.status == 'sat' and not ob.finding_key and not ob.name.startswith('C19.builder.') and not ob.name.startswith('C19.schedule.'):
            check.inconclusive.append(f'{ob.name}: solver counterexample on the ECS model (no automatic App replay for this clause)')
    # counterexamples of the modelled clauses (other than the recorded finding) are replayed on the real App: key / frame histories
    # that pass through the pre-state of the failing step (previous key, then current key) and continue with every possible next
    # key, judged by the reference of replay_bevy::run_history; plus the fixed selector scenario
    bad = [ob for ob in check.obligations if ob.result.status == 'sat' and not ob.finding_key and not ob.name.startswith('C19.builder.')]
    # chain-step counterexamples: the solver's own event list is sent through the public Events resource of a real App
    chain_bad = [ob for ob in bad if hasattr(ob, 'chain_case')]
    if chain_bad:
        try:
            cases = []; exps = []
            for ob in chain_bad[:12]:
                cur_d, mapping, nev = ob.chain_case
                evs = [(0 if ob.result.model.get(f'ev{i}_this_entity') else 1, ob.result.model.get(f'ev{i}_state', 0)) for i in range(nev)]
                exp = cur_d
                for who, st_ in evs:
                    if who == 0 and st_ == 3 and exp in mapping: exp = mapping[exp]
                cases.append({'kind': 'bevy_chain_step', 'cur': KEYS[cur_d], 'chain': ';'.join(f'{KEYS[a]}>{KEYS[b]}' for a, b in mapping.items()),
                              'events': ';'.join(f'{w}:{s_}' for w, s_ in evs)})
                exps.append(KEYS[exp])
            nats = run_replay(cases, 'dev', 'replay_bevy', timeout=900)
            check.traces_validated += len(nats)
            nrep = 0
            for ob, case, exp, nat in zip(chain_bad, cases, exps, nats):
                if nat.get('key_after') != exp and nrep < 2:
                    nrep += 1
                    check.inconclusive = [x for x in check.inconclusive if not x.startswith(ob.name + ':')]
                    check.report_violation(ob.name, None, f'chain_animations on a real App: selector key {case["cur"]}, chain {case["chain"] or "(empty)"}, AnimationStateChanged events '
                                           f'[{case["events"]}] (entity 0 = this entity, 1 = an entity without selector/chain; state 3 = Ended): key after the frame is {nat.get("key_after")}, documented behaviour gives {exp}', case)
            if nrep:
                check.inconclusive = [x for x in check.inconclusive if 'no automatic App replay' not in x or '.chain[' not in x]
                bad = [ob for ob in bad if not hasattr(ob, 'chain_case')]
        except Exception as e:
            check.inconclusive.append(f'bevy chain-step replay unavailable ({e})')
    if bad:
        try:
            hist = histories_for(bad)
            nats = run_replay(hist + [{'kind': 'bevy_selector'}], 'dev', 'replay_bevy', timeout=900)
            check.traces_validated += len(nats)
            hits = [(c, n) for c, n in zip(hist + [{'kind': 'bevy_selector'}], nats) if n.get('violated')]
            if hits:
                check.inconclusive = [x for x in check.inconclusive if 'no automatic App replay' not in x]
                seen = set()
                for case, nat in hits:
                    d = nat.get('detail', '')
                    sig = re.sub(r'[-\d.]+', '#', d)[:80]
                    if sig in seen or len(seen) >= 3: continue
                    seen.add(sig)
                    check.report_violation(bad[0].name + f'.{len(seen)}', None, f'{bad[0].words} FAILS ({len(bad)} failing obligations on the model); on the real App, history {case.get("ops", case["kind"])} chain {case.get("chain", "-")!r}: {d}', case)
        except Exception as e:
            check.inconclusive.append(f'bevy replay unavailable ({e})')
    else:
        # model validation on the unchanged tree: a sample of histories must satisfy the reference on the real App
        try:
            hist = histories_for([])[:: 7]
            nats = run_replay(hist, 'dev', 'replay_bevy', timeout=900)
            check.traces_validated += len(nats)
            # the chain-step model against the real App: every event list of length <= 2 over {this, other} x {Playing, Ended}
            ccases = []; cexp = []
            for cur_d, mapping in ((1, {1: 2}), (1, {1: 2, 2: 1}), (2, {1: 2}), (1, {})):
                for nev in (0, 1, 2):
                    for evs in itertools.product(itertools.product((0, 1), (2, 3)), repeat=nev):
                        exp = cur_d
                        for who, st_ in evs:
                            if who == 0 and st_ == 3 and exp in mapping: exp = mapping[exp]
                        ccases.append({'kind': 'bevy_chain_step', 'cur': KEYS[cur_d], 'chain': ';'.join(f'{KEYS[a]}>{KEYS[b]}' for a, b in mapping.items()), 'events': ';'.join(f'{w}:{s_}' for w, s_ in evs)})
                        cexp.append(KEYS[exp])
            cn = run_replay(ccases, 'dev', 'replay_bevy', timeout=900)
            check.traces_validated += len(cn)
            for case, exp, nat in zip(ccases, cexp, cn):
                if nat.get('key_after') != exp:
                    check.report_violation('C19.chain-step', None, f'chain step {case} on the real App: key {nat.get("key_after")}, documented {exp}', case); break
            for case, nat in zip(hist, nats):
                if nat.get('violated'):
                    check.report_violation('C19.history', None, f'history {case["ops"]} chain {case["chain"]!r} on the real App: {nat.get("detail")}', case)
                    break
        except Exception as e:
            check.inconclusive.append(f'bevy replay unavailable ({e})')
    check.assumptions += ['ECS contract modelled at call level (bevy_model.py), incl. the Changed<AnimationSelector> filter and EventReader (each event read once); chain and select are explored in both relative orders',
                          'keys: a 4-value enum; two keys have (abstract, L-tl) timelines, two have none; HashMap::get is a lookup in a concrete small map',
                          'AnimationStateChanged carries only (entity, state): the clause about other animators on the same entity is a recorded known finding']
    check.samples = [o.words for o in check.obligations[:3]] + [o.name for o in check.obligations[-3:]]
    return check.finish(rule='one obligation per (system, pre-state shape, execution path, clause); integrated two-frame runs in both system orders')


if __name__ == '__main__':
    sys.exit(main(sys.argv[1] if len(sys.argv) > 1 else 'quick'))
