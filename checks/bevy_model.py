"""Call-level model of the part of the bevy ECS contract that bevy_mina's systems use (trusted base of C18 / C19).

The REAL MIR of bevy_mina::animator::animate, selection::{select_animation, chain_animations}, Animator::{reset, ...},
AnimationStateChanged::new is executed; only the ECS entry points are modelled:

  Query::iter_mut / QueryIter::next   rows of (Entity, Mut<component>...) in entity order (Changed<> filter honoured)
  Query::get_mut(entity)              Ok(Mut<component>) if the entity has it, Err otherwise
  Mut::deref / deref_mut              access to the component; deref_mut marks it changed (change detection)
  Res<Time>::deref, Time::delta       the frame delta (a symbolic Duration)
  EventWriter::send / EventReader::iter   append to / read this system's unread events
  HashMap::get, clone_box             lookup in a concrete small map / structural clone
"""
from common import *
from mirsym import models
from mirsym.models import mk_duration, DUR_MAX

ZERO = fpv32(0.0)
STATE = {'None': 0, 'Waiting': 1, 'Playing': 2, 'Ended': 3}


class World:
    """entities: list of dicts {id, comps: {type name: Cell(value)}, changed: set(type names)}"""

    def __init__(self):
        self.entities = []
        self.events = []          # AnimationStateChanged values sent this frame
        self.inbox = []           # events visible to readers (sent earlier, not yet read)
        self.delta = None

    def add(self, comps):
        e = dict(id=len(self.entities), comps={k: Cell(v) for k, v in comps.items()}, changed=set(comps))
        self.entities.append(e); return e


def entity_val(i):
    return Agg('Entity', [Sc('u32', z3.BitVecVal(i, 32)), Sc('u32', z3.BitVecVal(0, 32))])


def entity_id(m, v):
    while isinstance(v, Ref): v = m.load(v)
    return concrete(v.f[0].t)


class Ecs:
    def __init__(self, prog, enums, world, tl_model):
        self.prog, self.enums, self.w, self.tl = prog, enums, world, tl_model

    def mut_val(self, ent, ty):
        return Agg('Mut', [Ref(ent['comps'][ty], 0), Opaque('changeflag', ent=ent, ty=ty)])

    def overrides(self):
        R = re.compile
        return [
            (R(r'Query::<.*>::iter_mut$|Query::<.*>::iter$'), self.q_iter),
            (R(r'QueryIter<.*> as IntoIterator>::into_iter$'), lambda m, c, a: a[0]),
            (R(r'QueryIter<.*> as Iterator>::next$'), self.q_next),
            (R(r'Query::<.*>::get_mut$|Query::<.*>::get$'), self.q_get),
            (R(r'<Mut<.*> as Deref>::deref$|<Ref<.*> as Deref>::deref$'), self.mut_deref),
            (R(r'Mut<.*> as DerefMut>::deref_mut$'), self.mut_deref_mut),
            (R(r'Res<.*> as Deref>::deref$'), lambda m, c, a: a[0]),
            (R(r'Time::delta$'), lambda m, c, a: mk_duration(self.w.delta)),
            (R(r'EventWriter::<.*>::send$'), self.ev_send),
            (R(r'EventReader::<.*>::iter$|EventReader::<.*>::read$'), self.ev_iter),
            (R(r'as (mina::)?Timeline>::(update|start_with|duration|delay)$'), self.tl.handler),
            (R(r'HashMap::<.*>::get::<'), self.map_get),
            (R(r'HashMap::<.*>::new$'), lambda m, c, a: Opaque('hashmap', entries={})),
            (R(r'HashMap::<.*>::insert$'), self.map_insert),
            (R(r'HashMap::<.*>::entry$'), self.map_entry),
            (R(r'Entry::<.*>::(or_insert_with|or_insert|or_default)'), self.entry_or_insert),
            (R(r'as PartialEq>::eq$'), self.eq_keys),
        ]

    # ---- queries: a Query value is Opaque('query', spec=[component type names...], changed=filter type or None)
    def q_iter(self, m, callee, args):
        q = m.load(args[0])
        rows = []
        for ent in self.w.entities:
            if all(t == 'Entity' or t in ent['comps'] for t in q.spec) and (q.changed is None or q.changed in ent['changed']):
                vals = []
                for t, mode in zip(q.spec, q.modes):
                    if t == 'Entity': vals.append(entity_val(ent['id']))
                    elif mode == 'mut': vals.append(self.mut_val(ent, t))
                    else: vals.append(Ref(ent['comps'][t], 0))
                rows.append(Agg(None, vals) if len(vals) > 1 else vals[0])
        return Opaque('iter_owned', items=rows, idx=0)

    def q_next(self, m, callee, args):
        it = m.load(args[0]) if isinstance(args[0], Ref) else args[0]
        v = models.iter_next(m, it)
        return none() if v is None else some(v)

    def q_get(self, m, callee, args):
        q = m.load(args[0]); eid = entity_id(m, args[1])
        ent = self.w.entities[eid]
        if all(t in ent['comps'] for t in q.spec):
            vals = [self.mut_val(ent, t) if mode == 'mut' else Ref(ent['comps'][t], 0) for t, mode in zip(q.spec, q.modes)]
            return En('Result', 0, {0: [Agg(None, vals) if len(vals) > 1 else vals[0]]})
        return En('Result', 1, {1: [Agg('QueryEntityError', [])]})

    def mut_deref(self, m, callee, args):
        v = m.load(args[0])
        if isinstance(v, Agg) and v.name == 'Mut': return v.f[0]
        return NotImplemented

    def mut_deref_mut(self, m, callee, args):
        v = m.load(args[0])
        if isinstance(v, Agg) and v.name == 'Mut':
            fl = v.f[1]; fl.ent['changed'].add(fl.ty)
            return v.f[0]
        return NotImplemented

    def ev_send(self, m, callee, args):
        self.w.events.append(args[1]); return UNIT

    def ev_iter(self, m, callee, args):
        items = [m.alloc(e) for e in self.w.inbox]
        self.w.inbox = []
        return Opaque('iter_owned', items=items, idx=0)

    def map_get(self, m, callee, args):
        mp = m.load(args[0])
        if not (isinstance(mp, Opaque) and mp.kind == 'hashmap'): return NotImplemented
        key = args[1]
        while isinstance(key, Ref): key = m.load(key)
        kd = key.d if isinstance(key.d, int) else concrete(key.d)
        if kd is None:
            n = len(self.enums.get(key.name, [])) or 4
            kd = m.choose([key.d == z3.BitVecVal(j, key.d.size()) for j in range(n)])
        if kd in mp.entries:
            return some(Ref(mp.entries[kd], 0))
        return none()

    def _key_d(self, m, key):
        while isinstance(key, Ref): key = m.load(key)
        kd = key.d if isinstance(key.d, int) else concrete(key.d)
        if kd is None: raise Unsupported('HashMap with a symbolic key')
        return kd

    def map_insert(self, m, callee, args):
        mp = m.load(args[0])
        if not (isinstance(mp, Opaque) and mp.kind == 'hashmap'): return NotImplemented
        kd = self._key_d(m, args[1])
        old = mp.entries.get(kd)
        mp.entries[kd] = Cell(args[2])
        return some(old.v) if old is not None else none()

    def map_entry(self, m, callee, args):
        mp = m.load(args[0])
        if not (isinstance(mp, Opaque) and mp.kind == 'hashmap'): return NotImplemented
        return Opaque('hm_entry', map=mp, kd=self._key_d(m, args[1]))

    def entry_or_insert(self, m, callee, args):
        e = args[0]
        if not (isinstance(e, Opaque) and e.kind == 'hm_entry'): return NotImplemented
        if e.kd not in e.map.entries:
            if 'or_insert_with' in callee: v = m.call_value(args[1], [])
            elif 'or_default' in callee: raise Unsupported('Entry::or_default')
            else: v = args[1]
            e.map.entries[e.kd] = Cell(v)
        return Ref(e.map.entries[e.kd], 0)

    def eq_keys(self, m, callee, args):
        return NotImplemented


class AbsTimelines:
    """abstract timelines obeying L-tl: Agg('AbsTL', [id, start x]); update writes F_id(start, t) into field 0 of the target"""

    def __init__(self):
        self.F = {}; self.fapps = []

    def Fk(self, k):
        if k not in self.F: self.F[k] = z3.Function(f'BTL_{k}', F32, F32, F32)
        return self.F[k]

    def dur(self, k): return z3.FP(f'btl_dur_{k}', F32)
    def delay(self, k): return z3.FP(f'btl_delay_{k}', F32)

    def tl(self, k, start=None):
        return Agg('AbsTL', [Sc('int', z3.IntVal(k)), Sc('f32', start if start is not None else z3.FP(f'btl_start_{k}', F32))])

    def handler(self, m, callee, args):
        method = callee.rsplit('::', 1)[1]
        v = args[0]
        while isinstance(v, Ref): v = m.load(v)
        if not (isinstance(v, Agg) and v.name == 'AbsTL'): return NotImplemented
        k = z3.simplify(v.f[0].t).as_long()
        if method == 'update':
            tgt = args[1]; t = args[2].t
            val = self.Fk(k)(v.f[1].t, t); self.fapps.append((val, v.f[1].t, t, k))
            m.store(Ref(tgt.c, tgt.k, tgt.path + (('f', 0),)), Sc('f32', val)); return UNIT
        if method == 'start_with':
            src = args[1]
            while isinstance(src, Ref): src = m.load(src)
            v.f[1] = Sc('f32', src.f[0].t); return UNIT
        if method == 'duration': return Sc('f32', self.dur(k))
        if method == 'delay': return Sc('f32', self.delay(k))
        return NotImplemented

    def valid(self, k):
        return [z3.Not(z3.fpIsNaN(self.dur(k))), fin(self.delay(k)), z3.fpGEQ(self.delay(k), ZERO), z3.fpGEQ(self.dur(k), self.delay(k))]


def animator_val(enabled, pos_nanos, timeline, state_d):
    tl = none() if timeline is None else some(Ref(Cell(timeline), 0))
    return Agg('Animator', [Sc('bool', enabled), mk_duration(pos_nanos), tl, En('AnimationState', state_d, {0: [], 1: [], 2: [], 3: []})])
