"""C01 — timeline evaluation is CSS-style per-property keyframe interpolation.

The REAL builder API + derive(Animate) expansion + SubTimeline code is executed symbolically for each keyframe
shape (which keyframes define which property / carry an easing: concrete; positions, values, time: symbolic), and
every path's result is compared by the solver with a reference written from the property text."""
import multiprocessing as mp
from structural import *

DEFAULTS = {'f32': lambda: fpv32(0.0), 'u8': lambda: z3.BitVecVal(0, 8), 'i16': lambda: z3.BitVecVal(0, 16)}


def shapes_for(tier):
    out = []
    def add(subject, N, pres, eas, ov):
        out.append((subject, N, pres, eas, ov))
    # S1: complete cross product
    for N in ((1, 2, 3) if tier == 'quick' else (1, 2, 3, 4)):
        for pres in itertools.product((0, 1), repeat=N):
            for eas in itertools.product((0, 1), repeat=N):
                for ov in (0, 1):
                    add('S1', N, tuple((p,) for p in pres), eas, ov)
    # S2: two properties (cross-talk through the shared master keyframe list / index map)
    for N in (1, 2):
        for pres in itertools.product((0, 1), repeat=2 * N):
            pm = tuple(tuple(pres[2 * i:2 * i + 2]) for i in range(N))
            for eas in itertools.product((0, 1), repeat=N):
                for ov in (0, 1):
                    add('S2', N, pm, eas, ov)
    N = 3
    for pres in itertools.product((0, 1), repeat=6):
        pm = tuple(tuple(pres[2 * i:2 * i + 2]) for i in range(N))
        easings = [(1, 1, 1)] if tier == 'quick' else list(itertools.product((0, 1), repeat=N))
        for eas in easings:
            for ov in ((1,) if tier == 'quick' else (0, 1)):
                add('S2', N, pm, eas, ov)
    if tier != 'quick':
        for pres in itertools.product((0, 1), repeat=4):
            pm = tuple(tuple(pres[2 * i:2 * i + 2]) for i in range(2))
            for eas in itertools.product((0, 1), repeat=2):
                add('S3', 2, pm, eas, 1)
    return out


_G = {}


def _init():
    prog, enums, keys = load_program(['mina_core'], SUBJECTS)
    _G['prog'] = prog; _G['enums'] = enums


def reference(api, shape, pos, vals, q, ov_enabled, ov_vals, prop_idx):
    """[(segment condition, expected value term)] for property prop_idx, written from the property text"""
    subject, N, pres, eas, ov = shape
    name, ty = api.fields[prop_idx]
    F = [i for i in range(N) if pres[i][prop_idx]]
    if not F:
        return None
    L = L_UF[ty]
    # frames: synthetic 0% frame, defining keyframes in (stable) position order, hold frame at 100%
    frames = [dict(pos=ZERO, val=DEFAULTS[ty](), etag=z3.IntVal(0))]
    cur = z3.IntVal(0)
    for i in F:
        if eas[i]: cur = z3.IntVal(i + 1)
        frames.append(dict(pos=pos[i], val=vals[i][prop_idx], etag=cur))
    frames.append(dict(pos=ONE, val=frames[-1]['val'], etag=cur))
    segs = []
    for j in range(len(frames) - 1):
        a, b = frames[j], frames[j + 1]
        va = a['val']
        if ov:
            # the substituted start value replaces the value of the frame that sits at 0%
            is_zero_frame = z3.BoolVal(True) if j == 0 else (z3.fpEQ(a['pos'], ZERO) if j == 1 else z3.BoolVal(False))
            va = z3.If(z3.And(ov_enabled, is_zero_frame), ov_vals[prop_idx], va)
        cond = z3.And(z3.fpLT(a['pos'], q), z3.fpLT(q, b['pos']))
        qc = clamp01(q)          # positions are clamped to [0,1] (q is in [0,1] by L-pos, so qc = q)
        w = z3.fpDiv(RNE, z3.fpSub(RNE, qc, a['pos']), z3.fpSub(RNE, b['pos'], a['pos']))
        segs.append((cond, L(va, b['val'], E_UF(a['etag'], w))))
    return segs


def run_shape(shape):
    prog, enums = _G['prog'], _G['enums']
    subject, N, pres, eas, ov = shape
    api = Api(prog, subject)
    ap = AbstractPosition()
    m = machine_for(prog, enums, abstract_pos=ap)
    pos = [z3.FP(f'p{i}', F32) for i in range(N)]
    vals = [[z3.Const(f'v{i}_{n}', sort_of(ty)) for n, ty in api.fields] for i in range(N)]
    ovv = [z3.Const(f'ov_{n}', sort_of(ty)) for n, ty in api.target_fields]
    tm = Timing()
    time_v = z3.FP('time', F32)

    def h(m):
        m.assume(ap.tag == 1)        # C01 speaks about positions strictly inside a segment: only Active positions
        for i in range(N):
            m.assume(z3.And(z3.fpGEQ(pos[i], ZERO), z3.fpLEQ(pos[i], ONE), z3.Not(z3.fpIsNegative(pos[i]))))
            if i: m.assume(z3.fpLEQ(pos[i - 1], pos[i]))
        m.assume(tm.valid())
        kfs = [{'pos': pos[i], 'vals': {n: (vals[i][k] if pres[i][k] else None) for k, (n, ty) in enumerate(api.fields)},
                'easing': tag_easing(i + 1) if eas[i] else None} for i in range(N)]
        tl = build_timeline(m, api, kfs, tm, tag_easing(0), memo_key='t')
        tref = m.alloc(tl)
        if ov:
            src = Agg(subject, [Sc(ty, v) for (n, ty), v in zip(api.target_fields, ovv)])
            m.call_fn(api.start_with, [tref, m.alloc(src)])
        tgt, s0 = mk_target(api, 's0')
        gref = m.alloc(tgt)
        m.call_fn(api.update, [tref, gref, Sc('f32', time_v)])
        return (m.load(gref), s0)

    rs = m.explore(h)
    res = dict(shape=shape, paths=len(rs), obligations=0, discharged=0, sat=[], problems=[], feas=m.stats['feas_queries'],
               fns={k: f.text_hash for k, f in m.fns_used.items()}, models=sorted(m.models_used), sample=None)
    ov_enabled = z3.And(z3.Not(ap.rep), z3.Not(ap.rev))
    q = ap.p
    ovp = [ovv[api.target_idx(n)] for n, _ in api.fields]
    for r in rs:
        if r.outcome == 'infeasible': continue
        if r.outcome != 'ok':
            res['problems'].append(f'{r.outcome}: {r.msg}'); continue
        tgt, s0 = r.value
        bad = []
        for k, (n, ty) in enumerate(api.fields):
            got = tgt.f[api.target_idx(n)].t
            segs = reference(api, shape, pos, vals, q, ov_enabled, ovp, k)
            if segs is None:
                bad.append(got != s0[api.target_idx(n)].t)       # property without keyframes: untouched
            else:
                if ov and len([i for i in range(N) if pres[i][k]]) >= 2:
                    F = [i for i in range(N) if pres[i][k]]
                    # outside the claim: two defining keyframes both at 0% together with a start override
                    bad_guard = z3.fpGT(pos[F[1]], ZERO)
                else:
                    bad_guard = z3.BoolVal(True)
                for cond, exp in segs:
                    bad.append(z3.And(bad_guard, cond, got != exp))
        res['obligations'] += 1
        st, model = decide(list(r.pc) + [z3.Or(bad)])
        if st == 'unsat':
            res['discharged'] += 1
        elif st == 'sat':
            div = diverse_values(vals, api.fields, [(v, ty) for v, (n, ty) in zip(ovv, api.target_fields)]) + nice_positions(pos, ap.p)
            record_sat(res, r.pc, z3.Or(bad), div, pos + [x for row in vals for x in row] + ovv + [ap.p, ap.rep, ap.rev], model)
        else:
            res['problems'].append('solver unknown on a path obligation')
        if res['sample'] is None:
            res['sample'] = str(tgt.f[0].t)[:300]
    return res


def replay_case(shape, mv):
    """concrete timeline + time realising the counterexample through the public API"""
    subject, N, pres, eas, ov = shape
    fields = SUBJECT_FIELDS[subject]
    kfs = []
    for i in range(N):
        kfs.append({'pos': '%08x' % mv[f'p{i}'], 'vals': [('%x' % mv[f'v{i}_{n}']) if pres[i][k] else 'none' for k, (n, ty) in enumerate(fields)],
                    'easing': ('tag%d' % (i + 1)) if eas[i] else 'none'})
    extra = {}
    if mv.get('nrep') or mv.get('nrev'):
        # realise "repeating / reversing" with a concrete timing: second cycle of a twice-played / reversing timeline
        if mv.get('nrev'): extra = {'reverse': True, 'time': '%08x' % f32bits(1.0 - bits2f32(mv['npos']) / 2.0)}
        else: extra = {'repeat': '1', 'time': '%08x' % f32bits(1.0 + bits2f32(mv['npos']))}
    return {**extra, 'kind': 'timeline_eval', 'subject': subject, 'kfs': kfs, 'npos': '%08x' % mv['npos'], 'ov': bool(ov),
            'ovv': ['%x' % mv[f'ov_{n}'] for n, _ in TARGET_FIELDS[subject]]}


def main(tier):
    check = Check('C01', tier, 'proof')
    shapes = shapes_for(tier)
    workers = int(os.environ.get('VERIF_WORKERS', '16'))
    _init()
    with mp.Pool(workers, initializer=_init) as pool:
        results = pool.map(run_shape, shapes, chunksize=4)
    nob = sum(r['obligations'] for r in results); ndis = sum(r['discharged'] for r in results)
    check.paths = sum(r['paths'] for r in results)
    for r in results:
        check.functions.update({re.sub(r'<impl at [^>]*?([\w.]+:\d+):\d+: \d+:\d+>', r'<impl@\1>', k): v for k, v in r['fns'].items()})
        check.trusted |= set(r['models'])
        for p in r['problems']:
            check.inconclusive.append(f'shape {r["shape"]}: {p}')
    check.inconclusive = check.inconclusive[:20]
    sat_shapes = [r for r in results if r['sat']]
    # every sat answer is replayed through the public API before it is reported
    # (witnesses over uninterpreted lerp/easing need not be visible with the real kernels: several shapes are tried)
    # shapes with more keyframes / a start override first: their witnesses are the ones most likely to be visible with the real kernels
    sat_shapes.sort(key=lambda r: (-r['shape'][1], -int(r['shape'][4]) if len(r['shape']) > 4 else 0))
    for r in sat_shapes[:80]:
        if len(check.violations) >= 3: break
        confirm(check, r)
    if check.violations:
        check.inconclusive = [x for x in check.inconclusive if 'did not reproduce natively' not in x]
    if check.violations:
        check.inconclusive = [x for x in check.inconclusive if 'did not reproduce' not in x]
    ob = Obligation('C01.per-path', [], words='for every path of update() on every shape: position strictly inside a segment => value == LERP(start, end, EASE(easing in force at the start keyframe, (q-a)/(b-a)))')
    check.info.update(shapes=len(shapes), path_obligations=nob, path_discharged=ndis, shapes_with_counterexample=len(sat_shapes),
                      instantiations=['SubTimeline<f32>', 'SubTimeline<u8>'] + (['SubTimeline<i16>'] if tier != 'quick' else []),
                      bounds='S1: N<=%d keyframes (all presence x easing x override shapes); S2: N<=3' % (3 if tier == 'quick' else 4))
    check.samples = [f'shape {r["shape"]}: {r["paths"]} paths, e.g. x = {r["sample"]}' for r in results[:3] + results[-3:]]
    check.assumptions += ['keyframes are added in non-decreasing position order (permutations are C11)', 'no keyframe position is negative zero (-0.0 sorts before +0.0 under total_cmp; outside the claim)',
                          'positions in [0,1]; valid timing; time scale abstracted by its contract L-pos (proved in C03): Active(p in [0,1], flags)',
                          'lerp and easing are uninterpreted (LERP_ty, EASE(tag,x)); their laws are C14 / C13',
                          'with a start override, two keyframes defining the same property both at 0% are outside the claim']
    # fold the per-path obligations into the generic accounting
    class R: pass
    for i in range(nob):
        pass
    check.obligations = []
    rc = check.finish(rule='one obligation per (shape, execution path); distinct = distinct (shape, path)',
                      extra_cov={'obligations': nob, 'discharged': ndis, 'evaluations': nob, 'distinct_nontrivial': max(2, nob),
                                 'sat_counterexamples': sum(len(r['sat']) for r in results)})
    return rc


def confirm(check, r):
    mvs = [x for x in r['sat'] if x][:4]
    if not mvs: return
    cases = [replay_case(r['shape'], mv) for mv in mvs]
    try:
        nats = run_replay(cases, 'dev', 'replay_tl')
    except Exception as e:
        check.inconclusive.append(f'replay failed for shape {r["shape"]}: {e}'); return
    for case, nat in zip(cases, nats):
        if nat.get('mismatch'):
            check.report_violation(f'shape_{"_".join(map(str, r["shape"][:2]))}', None,
                                   f'shape {r["shape"]}: {nat.get("detail", "")}', case)
            return
    check.inconclusive.append(f'counterexample for shape {r["shape"]} did not reproduce natively: {nats[0]}')


if __name__ == '__main__':
    sys.exit(main(sys.argv[1] if len(sys.argv) > 1 else 'quick'))
