"""The schedule that bevy_mina registers, read by executing the REAL MIR of `<AnimationPlugin<T> as Plugin>::build` and
`<App as AnimationAppExt>::register_animation_key` symbolically over a call-level model of the App builder API:

  App::{register_type, add_event, init_resource, insert_resource, ...}   return the App (recorded by name)
  App::add_systems(schedule label, configs)                               recorded: (label, configs)
  IntoSystemConfigs::{before, after, run_if, in_set, chain, ...}          constructors of a configuration value

C18 and C19 reason about single runs of the systems; this part decides what they silently relied on before: that `animate::<T>`
runs once per frame of the `Update` schedule UNCONDITIONALLY (every run condition attached to it is executed symbolically over
an arbitrary resource state and the solver is asked whether it can be false), and which relative orders of chain / select / animate
the registered constraints allow (C19 explores exactly those)."""
from common import *
import itertools

SYSTEMS = ('animate', 'select_animation', 'chain_animations')


def text_of(v):
    if isinstance(v, FnItem): return v.name
    if isinstance(v, Agg): return f'{v.name}(' + ', '.join(text_of(x) for x in v.f) + ')'
    if isinstance(v, Opaque): return f'<{v.kind}>'
    if isinstance(v, (list, tuple)): return '[' + ', '.join(text_of(x) for x in v) + ']'
    return str(v)


def systems_in(txt):
    return [s for s in SYSTEMS if re.search(r'\{' + s + r'::<', txt) or re.search(r'(^|[^\w])' + s + r'::<', txt)]


class Cfg:
    """a system configuration: the systems it covers, ordering constraints and run conditions"""
    def __init__(self, systems):
        self.systems = list(systems); self.before = []; self.after = []; self.conditions = []; self.other = []

    def copy(self):
        c = Cfg(self.systems); c.before = list(self.before); c.after = list(self.after); c.conditions = list(self.conditions); c.other = list(self.other)
        return c


def to_cfg(v):
    if isinstance(v, Opaque) and v.kind == 'syscfg': return v.cfg
    return Cfg(systems_in(text_of(v)))


def read_schedule(prog, enums, fn_name):
    """-> (records [(label text, Cfg)], calls [names], problems)"""
    cands = [f for f in prog.by_last.get(fn_name, []) if f.crate == 'bevy_mina' and any('App' in a[1] for a in f.args)]
    if len(cands) != 1:
        return [], [], [f'{fn_name}: {len(cands)} candidate bodies']
    fn = cands[0]
    records = []; calls = []; fresh = {}

    def passthrough(m, callee, args):
        calls.append(re.sub(r'::<.*', '', callee)); return args[0]

    def add_systems(m, callee, args):
        records.append((text_of(args[1]), to_cfg(args[2]))); return args[0]

    def world_query(m, callee, args):
        # what the App / World already contains when the plugin is built is not under the plugin's control: arbitrary
        name = re.sub(r'\W+', '_', re.sub(r'^.*?(World|App)::', '', callee))[:60]
        fresh.setdefault(name, z3.Bool('pre_' + name))
        return Sc('bool', fresh[name])

    def wrap(kind):
        def h(m, callee, args):
            c = to_cfg(args[0]).copy()
            if kind in ('before', 'after'):
                getattr(c, kind).extend(systems_in(text_of(args[1])) or [text_of(args[1])[:80]])
            elif kind in ('run_if', 'distributive_run_if'):
                c.conditions.append(args[1])
            else:
                c.other.append(kind)
            return Opaque('syscfg', cfg=c)
        return h

    R = re.compile
    ov = [(R(r'App::add_systems'), add_systems),
          (R(r'(World|App)::(contains_\w+|is_\w+|has_\w+)'), world_query)]
    for k in ('before', 'after', 'run_if', 'distributive_run_if', 'in_set', 'chain', 'ambiguous_with', 'ambiguous_with_all', 'into_configs', 'after_ignore_deferred', 'before_ignore_deferred'):
        ov.append((R(r'IntoSystemConfigs<.*>>::' + k + r'\b|IntoSystemConfigs::' + k + r'\b'), wrap(k)))
    ov.append((R(r'bevy::app::App::\w+'), passthrough))
    m = Machine(prog, enums, overrides=ov)

    def h(mm):
        del records[:]; del calls[:]
        app = Ref(Cell(Agg('App', [Agg('World', []), Agg('Runner', []), Agg('Schedules', [])])), 0)
        args = [app] if len(fn.args) == 1 else [Ref(Cell(Agg('AnimationPlugin', [])), 0), app]
        mm.call_fn(fn, args)
        return (list(records), list(calls))

    rs = [r for r in m.explore(h) if r.outcome != 'infeasible']
    problems = [f'{fn_name}: {r.outcome} {r.msg}' for r in rs if r.outcome != 'ok']
    oks = [r for r in rs if r.outcome == 'ok']
    # paths: [(path condition, records, calls)]; the first path's records are returned for callers that expect a single path
    paths = [(r.pc, r.value[0], r.value[1]) for r in oks]
    m.schedule_paths = paths; m.schedule_fresh = fresh
    if not oks:
        return [], [], problems + [f'{fn_name}: no successful execution path'], m
    return oks[0].value[0], oks[0].value[1], problems, m


def condition_can_be_false(prog, enums, cond):
    """run-condition function item -> (list of (path condition, returned bool term), witness names, problems); resources are arbitrary"""
    name = text_of(cond)
    mm = re.search(r'\{?(\w+)(?:::<[^{}]*>)?\}?\s*$', name)
    last = mm.group(1) if mm else name
    cands = [f for f in prog.by_last.get(last, []) if f.crate == 'bevy_mina']
    if len(cands) != 1:
        return None, [f'run condition {name[:80]}: body not found in the MIR of bevy_mina']
    fresh = {}

    def res_call(m, callee, args):
        # any accessor of a resource: a fresh symbolic value named after the accessor (bool accessors only; others are not modelled)
        acc = re.sub(r'::<.*', '', callee).split('::')[-1]
        if acc in ('is_paused', 'is_finished', 'is_empty', 'just_finished', 'paused'):
            fresh.setdefault(acc, z3.Bool('res_' + acc)); return Sc('bool', fresh[acc])
        if acc == 'delta':
            from mirsym.models import mk_duration
            fresh.setdefault('delta', z3.BitVec('res_delta_nanos', 128)); return mk_duration(fresh['delta'])
        return NotImplemented

    R = re.compile
    ov = [(R(r'Res<.*> as Deref>::deref$|ResMut<.*> as Deref>::deref$'), lambda m, c, a: a[0]),
          (R(r'Time::\w+$|Timer::\w+$|State<.*>::\w+$'), res_call)]
    m = Machine(prog, enums, overrides=ov)
    f = cands[0]
    rs = [r for r in m.explore(lambda mm_: mm_.call_fn(f, [Agg('Res', []) for _ in f.args])) if r.outcome != 'infeasible']
    out = []; problems = []
    for r in rs:
        if r.outcome != 'ok': problems.append(f'run condition {last}: {r.outcome} {r.msg}'); continue
        out.append((r.pc, r.value.t))
    return (out, fresh, last, m), problems


def allowed_orders(records):
    """relative orders of (chain, select, animate) within one frame of Update that the recorded constraints allow"""
    short = {'animate': 'animate', 'select_animation': 'select', 'chain_animations': 'chain'}
    cons = set()
    for label, cfg in records:
        for s in cfg.systems:
            for b in cfg.before:
                if b in short: cons.add((short[s], short[b]))
            for a in cfg.after:
                if a in short: cons.add((short[a], short[s]))
            if 'chain' in cfg.other:
                for x, y in zip(cfg.systems, cfg.systems[1:]): cons.add((short[x], short[y]))
    orders = [o for o in itertools.permutations(('chain', 'select', 'animate')) if all(o.index(a) < o.index(b) for a, b in cons)]
    return orders, sorted(cons)
