"""Driving the real builder / derive(Animate) / SubTimeline code symbolically (shared by C01, C02, C08-C12, C17)."""
import itertools
from common import *

ZERO = fpv32(0.0); ONE = fpv32(1.0)
SUBJECTS = os.path.join(VERIF, 'subjects', 'core1')

E_UF = z3.Function('EASE', z3.IntSort(), F32, F32)
L_UF = {
    'f32': z3.Function('LERP_f32', F32, F32, F32, F32),
    'f64': z3.Function('LERP_f64', F64, F64, F32, F64),
}
for _t, _b in INT_BITS.items():
    L_UF[_t] = z3.Function('LERP_' + _t, z3.BitVecSort(_b), z3.BitVecSort(_b), F32, z3.BitVecSort(_b))

SUBJECT_FIELDS = {
    'S1': [('v', 'f32')],
    'S2': [('x', 'f32'), ('y', 'u8')],
    'S3': [('a', 'f32'), ('b', 'i16')],          # animated fields only (S3.untouched is field index 1 of the target)
}
TARGET_FIELDS = {
    'S1': [('v', 'f32')],
    'S2': [('x', 'f32'), ('y', 'u8')],
    'S3': [('a', 'f32'), ('untouched', 'f32'), ('b', 'i16')],
}


def sort_of(ty):
    if ty == 'f32': return F32
    if ty == 'f64': return F64
    return z3.BitVecSort(INT_BITS[ty])


def sym(name, ty):
    return Sc(ty, z3.Const(name, sort_of(ty)))


def tag_easing(tag):
    """Easing::Custom(Box<TagEasing{tag}>): its calc is the uninterpreted EASE(tag, x)"""
    t = tag if z3.is_expr(tag) else z3.IntVal(tag)
    return En('Easing', 29, {29: [Ref(Cell(Agg('TagEasing', [Sc('int', t)])), 0)]})


def builtin_easing(idx):
    return En('Easing', idx, {idx: []})


def ov_lerp_uf(m, callee, args):
    a = m.load(args[0]) if isinstance(args[0], Ref) else args[0]
    b = m.load(args[1]) if isinstance(args[1], Ref) else args[1]
    if not isinstance(a, Sc) or a.ty not in L_UF: return NotImplemented
    return Sc(a.ty, L_UF[a.ty](a.t, b.t, args[2].t))


def ov_easing_uf(m, callee, args):
    e = m.load(args[0]) if isinstance(args[0], Ref) else args[0]
    if isinstance(e, En) and e.name == 'Easing' and isinstance(e.d, int) and e.d == 29:
        inner = e.p[29][0]
        while isinstance(inner, Ref): inner = m.load(inner)
        if isinstance(inner, Agg) and inner.name == 'TagEasing':
            return Sc('f32', E_UF(inner.f[0].t, args[1].t))
    if isinstance(e, Agg) and e.name == 'TagEasing':
        return Sc('f32', E_UF(e.f[0].t, args[1].t))
    return NotImplemented


class AbstractPosition:
    """L-pos: the contract of TimeScale::get_position proved in C03 (NotStarted / Active(p in [0,1], flags) / Ended(terminal))"""

    def __init__(self, suffix=''):
        self.p = z3.FP('npos' + suffix, F32); self.rep = z3.Bool('nrep' + suffix); self.rev = z3.Bool('nrev' + suffix)
        self.tag = z3.BitVec('ntag' + suffix, 8); self.reverse_cfg = None

    def handler(self, m, callee, args):
        ts = m.load(args[0])
        reverse = ts.f[3].t
        k = m.choose([self.tag == 0, self.tag == 1, self.tag == 2])
        if k == 0:
            return En('TimeScalePosition', 0, {0: []})
        if k == 1:
            m.assume(z3.And(z3.fpGEQ(self.p, ZERO), z3.fpLEQ(self.p, ONE)))
            return En('TimeScalePosition', 1, {1: [Sc('f32', self.p), Agg('TimeScaleLoopState', [Sc('bool', self.rep), Sc('bool', self.rev)])]})
        return En('TimeScalePosition', 2, {2: [Sc('f32', z3.If(reverse, ZERO, ONE))]})


def find_fn(prog, last, arg0=None, ret=None, crate=None, nargs=None, trait=None):
    out = []
    from mirsym.parser import type_head
    for f in prog.by_last.get(last, []):
        if arg0 is not None and (not f.args or type_head(f.args[0][1]) != arg0): continue
        if ret is not None and type_head(f.ret) != ret: continue
        if crate is not None and f.crate != crate: continue
        if nargs is not None and len(f.args) != nargs: continue
        if trait is not None and f.impl_trait != trait: continue
        out.append(f)
    if len(out) != 1:
        raise RuntimeError(f'find_fn({last},{arg0},{ret}) -> {[o.name for o in out]}')
    return out[0]


class Api:
    """handles to the real functions of the builder API for one subject struct"""

    def __init__(self, prog, subject):
        self.prog = prog; self.s = subject
        S = subject
        self.fields = SUBJECT_FIELDS[S]; self.target_fields = TARGET_FIELDS[S]
        self.timeline = find_fn(prog, 'timeline', ret='TimelineConfiguration', crate='subjects', nargs=0) if False else \
            [f for f in prog.by_last['timeline'] if f.crate == 'subjects' and f'{S}KeyframeData' in f.ret][0]
        self.keyframe = find_fn(prog, 'keyframe', ret=f'{S}KeyframeBuilder', crate='subjects')
        self.keyframe_from = find_fn(prog, 'keyframe_from', ret=f'{S}KeyframeBuilder', crate='subjects')
        self.setters = {n: find_fn(prog, n, arg0=f'{S}KeyframeBuilder', crate='subjects') for n, _ in self.fields}
        self.kf_easing = find_fn(prog, 'easing', arg0=f'{S}KeyframeBuilder', crate='subjects')
        self.cfg = {k: find_fn(prog, k, arg0='TimelineConfiguration', crate='mina_core')
                    for k in ('delay_seconds', 'duration_seconds', 'repeat', 'reverse', 'default_easing', 'keyframe')}
        self.build = [f for f in prog.by_last['build'] if f.crate == 'subjects' and f.ret == f'{S}Timeline'][0]
        self.build_merged = [f for f in prog.by_last['build'] if f.crate == 'subjects' and f.ret == f'MergedTimeline<{S}Timeline>'
                             and f.args[0][1].startswith('TimelineConfiguration')][0]
        self.update = find_fn(prog, 'update', arg0=f'{S}Timeline', crate='subjects')
        self.start_with = find_fn(prog, 'start_with', arg0=f'{S}Timeline', crate='subjects')
        self.clone = find_fn(prog, 'clone', arg0=f'{S}Timeline', crate='subjects')
        self.meta = {k: find_fn(prog, k, arg0=f'{S}Timeline', crate='subjects') for k in ('delay', 'duration', 'repeat', 'cycle_duration')}

    def target_idx(self, name):
        return [n for n, _ in self.target_fields].index(name)


class Timing:
    def __init__(self, suffix='', delay=None, dur=None):
        s = suffix
        self.delay = z3.FP('delay' + s, F32) if delay is None else delay
        self.dur = z3.FP('dur' + s, F32) if dur is None else dur
        self.rd = z3.BitVec('rd' + s, 64); self.n = z3.BitVec('n' + s, 32); self.reverse = z3.Bool('reverse' + s)

    def valid(self):
        return z3.And(fin(self.delay), fin(self.dur), z3.fpGT(self.dur, ZERO), z3.fpGEQ(self.delay, ZERO), z3.ULE(self.rd, 2))

    def repeat_val(self):
        return En('Repeat', self.rd, {0: [], 1: [Sc('u32', self.n)], 2: []})


def build_timeline(m, api, kfs, timing=None, default_easing=None, merged=False, memo_key=None):
    if memo_key is not None:
        return m.memo(('build', memo_key), lambda: _build_timeline(m, api, kfs, timing, default_easing, merged))
    return _build_timeline(m, api, kfs, timing, default_easing, merged)


def _build_timeline(m, api, kfs, timing=None, default_easing=None, merged=False):
    """kfs: list of dicts {pos: term, vals: {field: term or None}, easing: Easing value or None}
    -> the timeline value built by the REAL builder API (TimelineConfiguration -> derive-generated build)"""
    cfg = m.call_fn(api.timeline, [])
    if timing is not None:
        cfg = m.call_fn(api.cfg['duration_seconds'], [cfg, Sc('f32', timing.dur)])
        cfg = m.call_fn(api.cfg['delay_seconds'], [cfg, Sc('f32', timing.delay)])
        cfg = m.call_fn(api.cfg['repeat'], [cfg, timing.repeat_val()])
        cfg = m.call_fn(api.cfg['reverse'], [cfg, Sc('bool', timing.reverse)])
    if default_easing is not None:
        cfg = m.call_fn(api.cfg['default_easing'], [cfg, default_easing])
    for kf in kfs:
        kb = m.call_fn(api.keyframe, [Sc('f32', kf['pos'])])
        for (name, ty) in api.fields:
            v = kf['vals'].get(name)
            if v is not None:
                kb = m.call_fn(api.setters[name], [kb, Sc(ty, v)])
        if kf.get('easing') is not None:
            kb = m.call_fn(api.kf_easing, [kb, kf['easing']])
        cfg = m.call_fn(api.cfg['keyframe'], [cfg, kb])
    if merged:
        return m.call_fn(api.build_merged, [cfg])
    return m.call_fn(api.build, [cfg])


def mk_target(api, prefix):
    """symbolic prior target contents"""
    vals = [sym(f'{prefix}_{n}', ty) for n, ty in api.target_fields]
    # (the target gets its own field list: `vals` must keep describing the PRIOR contents after update() stored into the target)
    return Agg(api.s, list(vals)), vals


def machine_for(prog, enums, abstract_pos=None, uf_lerp=True, uf_ease=True, **kw):
    ov = []
    if uf_lerp: ov.append((re.compile(r' as Lerp>::lerp$'), ov_lerp_uf))
    if uf_ease: ov.append((re.compile(r' as EasingFunction>::calc$'), ov_easing_uf))
    if abstract_pos is not None:
        ov.append((re.compile(r'TimeScale::get_position$'), abstract_pos.handler))
    m = Machine(prog, enums, overrides=ov, **kw)
    return m


_ABS = {}
_UF_AR = {}


def abstract_arith(e):
    """replace fp.add/sub/mul/div applications by uninterpreted functions (a weakening: unsat of the abstracted
    query implies unsat of the original).  Comparisons, ite and everything else stay interpreted."""
    k = e.get_id()
    r = _ABS.get(k)
    if r is not None:
        return r[1]
    if not z3.is_app(e) or e.num_args() == 0:
        out = e
    else:
        kind = e.decl().kind()
        ch = [abstract_arith(c) for c in e.children()]
        nm = {z3.Z3_OP_FPA_ADD: 'add', z3.Z3_OP_FPA_SUB: 'sub', z3.Z3_OP_FPA_MUL: 'mul', z3.Z3_OP_FPA_DIV: 'div'}.get(kind)
        if nm and len(ch) == 3:
            key = (nm, e.sort().ebits(), e.sort().sbits())
            f = _UF_AR.get(key)
            if f is None:
                f = z3.Function(f'UF_{nm}_{key[1]}_{key[2]}', e.sort(), e.sort(), e.sort()); _UF_AR[key] = f
            out = f(ch[1], ch[2])
            _AXIOMS_FOR[out.get_id()] = (out, nm, ch[1], ch[2])
        else:
            try:
                out = e.decl()(*ch) if any(not c.eq(o) for c, o in zip(ch, e.children())) else e
            except z3.Z3Exception:
                out = e
    _ABS[k] = (e, out)
    return out


_AXIOMS_FOR = {}


def arith_axioms(exprs):
    """sound IEEE facts about the abstracted operations occurring in exprs (instances only, no quantifiers):
    add/sub never change the sign of the exact result; 0/b = 0, a/a = 1; signs of quotients"""
    seen = set(); out = []
    def walk(e):
        k = e.get_id()
        if k in seen: return
        seen.add(k)
        ax = _AXIOMS_FOR.get(k)
        if ax is not None:
            r, nm, a, b = ax
            z = z3.FPVal(0.0, r.sort())
            okab = z3.And(z3.Not(z3.fpIsNaN(a)), z3.Not(z3.fpIsNaN(b)), z3.Not(z3.fpIsInf(a)), z3.Not(z3.fpIsInf(b)))
            if nm in ('sub', 'add'):
                two = z3.FPVal(2.0, r.sort()); four = z3.FPVal(4.0, r.sort())
                out.append(z3.Implies(z3.And(okab, z3.fpLEQ(z3.fpAbs(a), two), z3.fpLEQ(z3.fpAbs(b), two)), z3.And(z3.Not(z3.fpIsInf(r)), z3.fpLEQ(z3.fpAbs(r), four))))
            if nm == 'sub':
                out.append(z3.Implies(okab, z3.And(z3.Not(z3.fpIsNaN(r)), z3.fpIsZero(r) == z3.fpEQ(a, b), z3.fpLT(r, z) == z3.fpLT(a, b), z3.fpGT(r, z) == z3.fpGT(a, b))))
            elif nm == 'add':
                nb = z3.fpNeg(b)
                out.append(z3.Implies(okab, z3.And(z3.Not(z3.fpIsNaN(r)), z3.fpIsZero(r) == z3.fpEQ(a, nb), z3.fpLT(r, z) == z3.fpLT(a, nb), z3.fpGT(r, z) == z3.fpGT(a, nb))))
            elif nm == 'div':
                one = z3.FPVal(1.0, r.sort())
                nzb = z3.Not(z3.fpIsZero(b))
                out.append(z3.Implies(z3.And(okab, nzb), z3.And(z3.Not(z3.fpIsNaN(r)),
                                                            z3.Implies(z3.fpIsZero(a), z3.fpIsZero(r)),
                                                            z3.Implies(z3.fpEQ(a, b), r == one),
                                                            z3.Implies(z3.And(z3.fpGEQ(a, z), z3.fpGT(b, z)), z3.fpGEQ(r, z)),
                                                            z3.Implies(z3.And(z3.fpGEQ(a, z), z3.fpGT(b, z), z3.fpLEQ(a, b)), z3.fpLEQ(r, one)),
                                                            z3.Implies(z3.And(z3.fpGT(a, z), z3.fpGT(b, z), z3.fpLT(a, b), z3.Not(z3.fpIsInf(r))), z3.fpLEQ(r, one)))))
        for c in e.children(): walk(c)
    for e in exprs: walk(e)
    return out


def free_consts(exprs):
    seen = set(); out = {}
    def walk(e):
        k = e.get_id()
        if k in seen: return
        seen.add(k)
        if z3.is_const(e) and e.decl().kind() == z3.Z3_OP_UNINTERPRETED:
            out[str(e)] = e
        for c in e.children(): walk(c)
    for e in exprs: walk(e)
    return list(out.values())


def _decide_once(assertions, timeout_ms=20000):
    """first the arithmetic-abstracted query (fast: EUF + comparisons + instantiated IEEE facts).  If that is sat, its
    model is tried as a candidate on the EXACT query (inputs fixed to the candidate values: arithmetic constant-folds);
    only if the candidate is spurious the exact query is attempted as a whole."""
    ab = [abstract_arith(a) for a in assertions]
    st, model = inproc_unsat(ab + arith_axioms(ab), timeout_ms)
    if st == 'unsat':
        return st, None
    if st == 'sat':
        fixes = []
        for v in free_consts(assertions):
            if z3.is_fp(v) or z3.is_bv(v) or z3.is_bool(v):
                fixes.append(v == model.eval(v, model_completion=True))
        st2, model2 = inproc_unsat(list(assertions) + fixes, timeout_ms)
        if st2 == 'sat':
            return 'sat', model2
    return inproc_unsat(assertions, timeout_ms)


def clamp01(q):
    return z3.If(z3.fpLT(q, ZERO), ZERO, z3.If(z3.fpGT(q, ONE), ONE, q))


def inproc_unsat(assertions, timeout_ms=20000):
    """decide a cheap (UF + FP comparison) query with in-process z3; -> 'unsat' | 'sat' | 'unknown', model"""
    s = z3.Solver(); s.set('timeout', timeout_ms)
    s.add(*assertions)
    r = s.check()
    if r == z3.unsat: return 'unsat', None
    if r == z3.sat: return 'sat', s.model()
    return 'unknown', None


# ------------------------------------------------------------------------------------------- shape runner
_G = {}


def worker_init():
    prog, enums, keys = load_program(['mina_core'], SUBJECTS)
    _G['prog'] = prog; _G['enums'] = enums; _G['keys'] = keys


def model_values(model, vars_):
    mv = {}
    for v in vars_:
        e = model.eval(v, model_completion=True)
        if z3.is_fp(e):
            b = model.eval(z3.fpToIEEEBV(v), model_completion=True)
            b = z3.simplify(b)
            mv[str(v)] = b.as_long() if z3.is_bv_value(b) else 0
        elif z3.is_bv_value(e):
            mv[str(v)] = e.as_long()
        else:
            mv[str(v)] = bool(z3.is_true(e))
    return mv


def make_pool(workers=None):
    import multiprocessing as mp
    workers = workers or int(os.environ.get('VERIF_WORKERS', '16'))
    worker_init()
    return mp.Pool(workers, initializer=worker_init)


def run_shapes(check, worker, shapes, workers=None, pool=None):
    if pool is None:
        pool = make_pool(workers)
    check.info['mir_source_hash'] = _G['keys']
    # a source change that breaks (almost) every shape produces a flood of counterexamples; once 12 shapes have one, the remaining
    # shapes are not run (recorded as truncated).  This never happens on a tree where the property holds: no shape has one.
    results = []; with_sat = 0
    with pool:
        for r in pool.imap(worker, shapes, chunksize=1):
            results.append(r)
            if r.get('sat') and any(r['sat']):
                with_sat += 1
                if with_sat >= 12 and len(results) < len(shapes):
                    check.info['truncated'] = f'{len(shapes) - len(results)} of {len(shapes)} shapes not run after {with_sat} shapes with counterexamples'
                    pool.terminate(); break
    for r in results:
        check.functions.update({re.sub(r'<impl at [^>]*?([\w.]+:\d+):\d+: \d+:\d+>', r'<impl@\1>', k): v for k, v in r['fns'].items()})
        check.trusted |= set(r['models'])
        for p in r['problems']:
            if len(check.inconclusive) < 20:
                check.inconclusive.append(f'shape {r["shape"]}: {p}')
    check.paths = sum(r['paths'] for r in results)
    return results


def new_result(shape):
    return dict(shape=shape, paths=0, obligations=0, discharged=0, sat=[], problems=[], fns={}, models=[], sample=None)


def close_result(res, m, rs):
    res['paths'] = len(rs)
    res['fns'] = {k: f.text_hash for k, f in m.fns_used.items()}
    res['models'] = sorted(m.models_used)
    return res


def finish_shapes(check, results, rule, words):
    nob = sum(r['obligations'] for r in results); ndis = sum(r['discharged'] for r in results)
    check.info.update(shapes=len(results), shapes_with_counterexample=len([r for r in results if r['sat']]), obligation_in_words=words)
    if not check.samples:
        check.samples = [f'shape {r["shape"]}: {r["paths"]} paths; e.g. result term {r["sample"]}' for r in (results[:3] + results[-3:])]
    check.obligations = []
    return check.finish(rule=rule, extra_cov={'obligations': nob, 'discharged': ndis, 'evaluations': max(1, nob), 'distinct_nontrivial': max(2, nob),
                                             'sat_counterexamples': sum(len(r['sat']) for r in results),
                                             'undischarged': [f'{r["shape"]}: {r["obligations"] - r["discharged"] - len(r["sat"])} path obligations' for r in results if r['obligations'] - r['discharged'] - len(r['sat']) > 0][:20]})


def diverse_values(vals_by_kf, fields, extra=()):
    """constraints fixing the symbolic property values to well separated constants, used only to turn a solver
    counterexample over uninterpreted lerp/easing into one that is visible with the real kernels"""
    cs = []
    for i, row in enumerate(vals_by_kf):
        for k, ((n, ty), v) in enumerate(zip(fields, row)):
            c = 8.0 * (i + 1) + 64.0 * k
            cs.append(v == (fpv32(c) if ty == 'f32' else z3.BitVecVal(int(c), INT_BITS[ty])))
    for j, (v, ty) in enumerate(extra):
        c = 200.0 + 16 * j
        cs.append(v == (fpv32(c) if ty == 'f32' else z3.BitVecVal(int(c) % (1 << (INT_BITS[ty] - 1)), INT_BITS[ty])))
    return cs


def nice_positions(pos, q):
    """keep witnesses away from denormals: every position is 0, 1 or a multiple of 1/64 in [1/32, 31/32]; the
    evaluation position q likewise lies in [1/32, 31/32] on the 1/256 grid"""
    cs = []
    lo, hi = fpv32(1 / 32), fpv32(31 / 32)
    def grid(x, k, name):
        b = z3.BitVec('wbits_' + name, 32)
        return [z3.fpBVToFP(b, F32) == x, z3.Extract(k - 1, 0, b) == 0]
    for i, p in enumerate(pos):
        cs.append(z3.Or(z3.fpEQ(p, ZERO), z3.fpEQ(p, ONE), z3.And(z3.fpGEQ(p, lo), z3.fpLEQ(p, hi))))
        cs += grid(p, 14, f'p{i}')
    cs.append(z3.And(z3.fpGEQ(q, lo), z3.fpLEQ(q, hi)))
    cs += grid(q, 12, 'q')
    for p in pos:
        cs.append(z3.Not(z3.fpEQ(q, p)))          # strictly inside a segment: endpoint laws of lerp/easing not needed
    return cs


def record_sat(res, pc, bad, diversity, vars_, model):
    """bookkeeping of a sat path obligation: res['sat'] gets up to two natively checkable (diversified) witnesses
    first, then plain models / placeholders"""
    ndiv = res.setdefault('ndiv', 0)
    if ndiv < 2:
        w = sat_witness(pc, bad, diversity, vars_, strict=True)
        if w is not None:
            res['sat'].insert(ndiv, w); res['ndiv'] = ndiv + 1
            return
    if not any(res['sat']):
        res['sat'].append(model_values(model, vars_))
    else:
        res['sat'].append({})


def sat_witness(pc, bad, diversity, vars_, strict=False):
    """model of pc & bad, preferring one that also satisfies the diversity constraints.  Candidates come from the
    arithmetic-abstracted query (fast) and are validated on the exact one with the inputs fixed."""
    exact = list(pc) + [bad]
    full = exact + list(diversity)
    ab = [abstract_arith(a) for a in full]
    ax = arith_axioms(ab)
    blocks = []
    for attempt in range(6):
        st, model = inproc_unsat(ab + ax + blocks, 10000)
        if st != 'sat': break
        fixes = [v == model.eval(v, model_completion=True) for v in free_consts(full) if (z3.is_fp(v) or z3.is_bv(v) or z3.is_bool(v))]
        st2, model2 = inproc_unsat(full + fixes, 10000)
        if st2 == 'sat':
            return model_values(model2, vars_)
        blocks.append(z3.Not(z3.And([abstract_arith(f) for f in fixes])))
    if strict:
        return None
    st, model = inproc_unsat(full, 20000)
    if st != 'sat':
        st, model = inproc_unsat(exact, 20000)
    if st != 'sat':
        return None
    return model_values(model, vars_)


def struct_eq(m, a, b, depth=0):
    """syntactic identity of two value trees (terms compared with z3 hash-consing identity, references by pointee)"""
    if depth > 60: return False
    if isinstance(a, Ref) and isinstance(b, Ref):
        return struct_eq(m, m.load(a), m.load(b), depth + 1)
    if type(a) is not type(b): return False
    if isinstance(a, Sc):
        return a.ty == b.ty and (a.t.eq(b.t) or z3.is_true(z3.simplify(a.t == b.t)))
    if isinstance(a, Agg):
        return a.name == b.name and len(a.f) == len(b.f) and all(struct_eq(m, x, y, depth + 1) for x, y in zip(a.f, b.f))
    if isinstance(a, En):
        da = a.d if isinstance(a.d, int) else concrete(a.d); db = b.d if isinstance(b.d, int) else concrete(b.d)
        if da is None or db is None:
            if not (z3.is_expr(a.d) and z3.is_expr(b.d) and a.d.eq(b.d)): return False
        elif da != db: return False
        if set(a.p) != set(b.p): return False
        return all(len(a.p[k]) == len(b.p[k]) and all(struct_eq(m, x, y, depth + 1) for x, y in zip(a.p[k], b.p[k])) for k in a.p)
    if isinstance(a, VecObj):
        return len(a.items) == len(b.items) and all(struct_eq(m, x, y, depth + 1) for x, y in zip(a.items, b.items))
    if isinstance(a, Opaque):
        return a.kind == b.kind
    if isinstance(a, FnItem):
        return a.name == b.name
    return a is b


def contract_axioms(exprs):
    """instances of the kernel lemmas for the uninterpreted lerp / easing applications occurring in exprs:
    L-ease01 (C13: every built-in easing maps 0 to 0 and 1 to 1 exactly) and L-lerp01 (C14: lerp(a,b,0)=a, lerp(a,b,1)=b)"""
    seen = set(); out = []
    lnames = {f.name() for f in L_UF.values()}
    def walk(e):
        k = e.get_id()
        if k in seen: return
        seen.add(k)
        if z3.is_app(e):
            nm = e.decl().name()
            if nm == 'EASE':
                x = e.arg(1)
                out.append(z3.Implies(z3.fpIsZero(x), z3.fpIsZero(e)))
                out.append(z3.Implies(z3.fpIsZero(x), z3.Not(z3.fpIsNegative(e)) == z3.Not(z3.fpIsNegative(x))))
                out.append(z3.Implies(x == ONE, e == ONE))
            elif nm in lnames:
                a, b, w = e.arg(0), e.arg(1), e.arg(2)
                out.append(z3.Implies(z3.fpIsZero(w), e == a))
                out.append(z3.Implies(w == ONE, e == b))
        for c in e.children(): walk(c)
    for e in exprs: walk(e)
    return out


def _decide_with_contracts_once(assertions, timeout_ms=20000):
    ab = [abstract_arith(a) for a in assertions]
    extra = arith_axioms(ab) + contract_axioms(ab)
    st, model = inproc_unsat(ab + extra, timeout_ms)
    if st == 'unsat':
        return st, None
    ex = list(assertions) + contract_axioms(assertions)
    if st == 'sat':
        fixes = [v == model.eval(v, model_completion=True) for v in free_consts(assertions) if (z3.is_fp(v) or z3.is_bv(v) or z3.is_bool(v))]
        st2, model2 = inproc_unsat(ex + fixes, timeout_ms)
        if st2 == 'sat':
            return 'sat', model2
    return inproc_unsat(ex, timeout_ms)


def decide(assertions, timeout_ms=20000):
    """_decide_once; an undecided answer (a time-out, e.g. on a loaded machine) is retried once with six times the budget -
    a time-out is never counted as success, but it should not make a check on an unchanged tree inconclusive either"""
    st, model = _decide_once(assertions, timeout_ms)
    if st not in ('sat', 'unsat'):
        st, model = _decide_once(assertions, 6 * timeout_ms)
    return st, model


def decide_with_contracts(assertions, timeout_ms=20000):
    st, model = _decide_with_contracts_once(assertions, timeout_ms)
    if st not in ('sat', 'unsat'):
        st, model = _decide_with_contracts_once(assertions, 6 * timeout_ms)
    return st, model
