#!/bin/bash
# regenerates seeded/*/meta.json and the table of DESIGN.md A.9 from seeded/waves.json
cd /verif && python3 tools/mk_meta.py > /dev/null && python3 tools/mk_meta.py --table | sed -n '/^| seeded |/,$p' > /tmp/_table.md && python3 - <<'PY'
s=open('/verif/DESIGN.md').read(); t=open('/tmp/_table.md').read().strip()
i=s.index('<!-- table:begin'); i=s.index('\n', i)+1; j=s.index('\n<!-- table:end -->')
open('/verif/DESIGN.md','w').write(s[:i]+t+s[j:])
PY
