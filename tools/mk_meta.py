#!/usr/bin/env python3
"""writes seeded/<id>/meta.json for the sub-agent deliverables of the later waves from the table below (what each change needs in order
to manifest, which quick check reports it) — the table is maintained by hand from tools/verify_w.sh and tools/run_wave.sh output."""
import json, os, sys
HERE = os.path.dirname(os.path.dirname(os.path.abspath(__file__)))
T = json.load(open(os.path.join(HERE, 'seeded', 'waves.json')))
for sid, e in T.items():
    d = os.path.join(HERE, 'seeded', sid)
    if not os.path.isdir(d): continue
    meta = {
        'id': sid, 'breaks_property': e['property'], 'needs_to_manifest': e['needs'],
        'produced_by': 'a fresh sub-agent given only the property text (and, in the fifth round, a focus hint naming files of the property\'s own anchors) and its own scratch git worktree of /repo (nothing from /verif)',
        'files': sorted(os.listdir(d)),
        'confirmed_by_me': e.get('confirmed', 'tools/verify_w.sh in the scratch worktree (outside /repo and /verif): demo on the unmodified tree: pass; `git apply patch.diff`: ok; demo with the patch: FAIL; `cargo test --workspace --offline` with the patch (demo removed): pass (55 tests incl. doc tests); worktree and build output removed afterwards'),
        'checks_run_against_it': e.get('ran', 'tools/run_wave.sh (git -C /repo apply, ./check <id> --tier quick, git -C /repo checkout -- .)'),
        'caught_by': e['caught_by'], 'note': e.get('note', ''),
    }
    json.dump(meta, open(os.path.join(d, 'meta.json'), 'w'), indent=1)
print('wrote', len(T))

# markdown table for DESIGN.md (A.9)
if len(sys.argv) > 1 and sys.argv[1] == '--table':
    print('| seeded | breaks | needs | caught by (quick) | notes |')
    print('|---|---|---|---|---|')
    for sid, e in T.items():
        cb = ', '.join('**%s**' % c for c in e['caught_by']) if e['caught_by'] else '— (miss)'
        print(f"| {sid} | {e['property']} | {e['needs']} | {cb} | {e.get('note', '')} |")
