#!/bin/bash
# usage: tools/run_wave.sh <outdir> <seeded-id>:<check>[,<check>...] ...   — sequentially: apply to /repo, run quick checks, revert
OUT="$1"; shift; mkdir -p "$OUT"
cd /verif
for spec in "$@"; do
  S="${spec%%:*}"; CH="${spec#*:}"; [ "$CH" = "$spec" ] && CH="${S%%-*}"
  git -C /repo apply "/verif/seeded/$S/patch.diff" || { echo "$S: patch does not apply" | tee -a $OUT/summary.txt; continue; }
  for c in ${CH//,/ }; do
    t0=$(date +%s)
    timeout 2400 ./check $c --tier quick > "$OUT/$S.$c.log" 2>&1; rc=$?
    nv=$(grep -c '^VIOLATION' "$OUT/$S.$c.log")
    echo "seeded=$S check=$c exit=$rc violations=$nv secs=$(( $(date +%s) - t0 )) :: $(grep '^\[' "$OUT/$S.$c.log" | tail -1)" | tee -a $OUT/summary.txt
  done
  git -C /repo checkout -- .
  git -C /verif checkout -- evidence/
done
echo DONE >> $OUT/summary.txt
