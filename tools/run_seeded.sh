#!/bin/bash
# usage: tools/run_seeded.sh <Cxx> [check ids...]   — applies seeded/<Cxx>/patch.diff to /repo, runs the given checks (default: the
# property's own check) in quick tier, reverts.  Prints one line per check: seeded, check, exit code, violations.
S="$1"; shift
CHECKS="${@:-$S}"
cd /verif
git -C /repo apply "/verif/seeded/$S/patch.diff" || { echo "$S: patch does not apply"; exit 9; }
for c in $CHECKS; do
  out=$(timeout 1500 ./check $c --tier quick 2>&1); rc=$?
  nv=$(echo "$out" | grep -c '^VIOLATION')
  echo "seeded=$S check=$c exit=$rc violations=$nv :: $(echo "$out" | grep '^\[' | tail -1)"
  echo "$out" | grep -A1 '^VIOLATION' | head -4
done
git -C /repo checkout -- .
# evidence written while /repo was patched is not evidence for the unchanged tree: restore the committed files
git -C /verif checkout -- evidence/
