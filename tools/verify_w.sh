#!/bin/bash
# Confirms one sub-agent deliverable inside its (clean) scratch worktree: usage: verify_w.sh <worktree> <a|b> <id>
WT="$1"; X="$2"; ID="$3"
export CARGO_NET_OFFLINE=true
cd "$WT" || exit 9
git checkout -- . ; git clean -fdq -e out -e target >/dev/null 2>&1
case "$ID" in C18|C19) DEST=bevy/tests/seeded_demo.rs; PKG=bevy_mina;; *) DEST=tests/seeded_demo.rs; PKG=mina;; esac
mkdir -p $(dirname $DEST); cp out/$X/seeded_demo.rs $DEST
cargo test --offline -p $PKG --test seeded_demo > out/$X/clean.log 2>&1; clean=$?
git apply out/$X/patch.diff; ap=$?
cargo test --offline -p $PKG --test seeded_demo > out/$X/patched.log 2>&1; patched=$?
rm -f $DEST
cargo test --workspace --offline > out/$X/suite.log 2>&1; suite=$?
npass=$(grep -h "^test result: ok" out/$X/suite.log | awk '{s+=$4} END {print s}')
nfail=$(grep -h "^test result: FAILED" out/$X/suite.log | wc -l)
git checkout -- . ; git clean -fdq -e out -e target >/dev/null 2>&1
echo "$ID-$X apply=$ap demo_clean=$clean demo_patched=$patched suite=$suite passed=$npass failed_groups=$nfail files=$(grep '^+++' out/$X/patch.diff | tr '\n' ' ')"
