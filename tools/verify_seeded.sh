#!/bin/bash
# Confirms a kept seeded change in a scratch worktree of /repo (outside /repo and /verif):
#   demo passes on the unmodified tree, patch applies, workspace compiles and the pinned suite passes with the patch, demo fails with the patch.
# usage: tools/verify_seeded.sh <id> <demo destination relative to the repo root> <cargo package of the demo>
ID="$1"; DEST="$2"; PKG="$3"
WT=/tmp/sv_$ID; TD=/tmp/sv_target
export CARGO_NET_OFFLINE=true
git -C /repo worktree remove --force $WT >/dev/null 2>&1; rm -rf $WT
git -C /repo worktree add --detach $WT HEAD >/dev/null 2>&1 || { echo "$ID: worktree failed"; exit 9; }
cd $WT
mkdir -p $(dirname $DEST); cp /verif/seeded/$ID/seeded_demo.rs $DEST
name=$(basename $DEST .rs)
cargo test --offline --target-dir $TD -p $PKG --test $name >/tmp/sv_$ID.clean.log 2>&1; clean=$?
git apply /verif/seeded/$ID/patch.diff; ap=$?
cargo test --offline --target-dir $TD -p $PKG --test $name >/tmp/sv_$ID.patched.log 2>&1; patched=$?
mv $DEST /tmp/sv_$ID.demo.rs
cargo test --workspace --offline --target-dir $TD >/tmp/sv_$ID.suite.log 2>&1; suite=$?
npass=$(grep -h "^test result: ok" /tmp/sv_$ID.suite.log | awk '{s+=$4} END {print s}')
echo "$ID apply=$ap demo_on_clean_tree=$clean(0=pass) demo_with_patch=$patched(nonzero=fail) suite_with_patch=$suite(0=pass, $npass tests passed)"
cd /; git -C /repo worktree remove --force $WT >/dev/null 2>&1; rm -rf $WT
