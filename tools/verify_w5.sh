#!/bin/bash
# like verify_w.sh, for deliverables whose demo location / command varies: usage: verify_w5.sh <worktree> <a|b> <id> <demo dest> <cargo test args...>
WT="$1"; X="$2"; ID="$3"; DEST="$4"; shift 4
export CARGO_NET_OFFLINE=true
cd "$WT" || exit 9
git checkout -- . ; git clean -fdq -e out -e target >/dev/null 2>&1
mkdir -p $(dirname $DEST); cp out/$X/seeded_demo.rs $DEST
cargo test --offline "$@" > out/$X/clean.log 2>&1; clean=$?
git apply out/$X/patch.diff; ap=$?
cargo test --offline "$@" > out/$X/patched.log 2>&1; patched=$?
rm -f $DEST
cargo test --workspace --offline > out/$X/suite.log 2>&1; suite=$?
npass=$(grep -h "^test result: ok" out/$X/suite.log | awk '{s+=$4} END {print s}')
git checkout -- . ; git clean -fdq -e out -e target >/dev/null 2>&1
echo "$ID-$X apply=$ap demo_clean=$clean demo_patched=$patched suite=$suite passed=$npass files=$(grep '^+++' out/$X/patch.diff | tr '\n' ' ')"
