#!/bin/bash
# usage: with_patch.sh <patch.diff> <command...>   — applies the patch to /repo, runs the command, always reverts
P="$1"; shift
git -C /repo apply "$P" || { echo "patch does not apply"; exit 9; }
"$@"; rc=$?
git -C /repo checkout -- . ; git -C /repo status --short | head -3
exit $rc
