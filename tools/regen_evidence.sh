#!/bin/bash
# runs every registered quick check on the current tree and reports exit codes (evidence files are rewritten)
cd /verif
for id in $(python3 -c "import json; print(' '.join(c['property_id'] for c in json.load(open('MANIFEST.json'))['checks']))"); do
  s=$(date +%s); out=$(timeout 1800 ./check $id --tier quick 2>&1); rc=$?
  echo "$id exit=$rc $(( $(date +%s) - s ))s :: $(echo "$out" | grep '^\[' | tail -1)"
  echo "$out" | grep -E "VIOLATION|INCONCLUSIVE|UNDISCHARGED" | head -3
done
