#!/bin/bash
# Offline setup: pre-build the native replay binaries and the MIR dumps' dependency artefacts.
cd "$(dirname "$0")"
export CARGO_NET_OFFLINE=true
mkdir -p .build evidence
(cd replay && cargo build --offline --target-dir ../.build/replay-target --bins 2>&1 | tail -2)
(cd replay && cargo build --offline --release --target-dir ../.build/replay-target --bins 2>&1 | tail -2)
python3-vt -c "
import sys; sys.path.insert(0,'checks')
from common import *
load_program(['mina_core'])
" 2>&1 | tail -2
exit 0
