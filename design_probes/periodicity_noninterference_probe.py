import sys, z3, time
import importlib.util
spec=importlib.util.spec_from_file_location('proto','/tmp/probe/mirsym_proto.py'); P=importlib.util.module_from_spec(spec); spec.loader.exec_module(P)
F32=P.F32; RNE=P.RNE; fpv=P.fpv
R=z3.Function('FMOD',F32,F32,F32)
orig=P.Exec.binop
def binop(self,op,a,b):
    if op=='Rem' and z3.is_fp(a): return R(a,b)
    return orig(self,op,a,b)
P.Exec.binop=binop
def build(suffix=''):
    fns=P.parse_mir(open('/tmp/probe/mir/core.mir').read())
    ex=P.Exec(fns); gp=ex.find('::get_position(')
    delay,dur,t=z3.FP('delay'+suffix,F32),z3.FP('dur'+suffix,F32),z3.FP('t'+suffix,F32)
    rdisc=z3.BitVec('rdisc'+suffix,64); n=z3.BitVec('n'+suffix,32); reverse=z3.Bool('reverse'+suffix)
    ts=[delay,dur,P.Enum(rdisc,{1:[n]}),reverse]
    ex.call(gp,[lambda: ts,t],[],lambda pc,rv: ex.results.append((pc,('ret',rv))))
    return (delay,dur,t,rdisc,n,reverse)+P.summarize(ex.results)
fin=lambda x: z3.And(z3.Not(z3.fpIsNaN(x)),z3.Not(z3.fpIsInf(x)))
zero,one=fpv(0.0),fpv(1.0)
a=build('_a'); b=build('_b')
da,ua,ta,ra,na,va,tag_a,pos_a,rep_a,rev_a,pan_a=a
db,ub,tb,rb,nb,vb,tag_b,pos_b,rep_b,rev_b,pan_b=b
tma=z3.fpSub(RNE,ta,da); tmb=z3.fpSub(RNE,tb,db)
cs=[fin(x) for x in (da,ua,ta,tb)]+[z3.fpGT(ua,zero),z3.fpGEQ(da,zero),z3.fpGEQ(ta,zero),z3.fpGEQ(tb,zero),
    db==da,ub==ua,rb==ra,nb==na,vb==va,z3.ULE(ra,2),z3.UGE(ra,1),
    z3.Not(pan_a),z3.Not(pan_b), tag_a==1, tag_b==1,
    z3.fpGT(tma,ua), z3.fpGT(tmb,ua),          # both beyond the first cycle
    z3.fpEQ(R(tma,ua),R(tmb,ua)),               # same remainder
    # FMOD axioms used: 0 <= r < d
    z3.fpGEQ(R(tma,ua),zero), z3.fpLT(R(tma,ua),ua),
    z3.Not(z3.And(z3.fpEQ(pos_a,pos_b), rev_a==rev_b, rep_a, rep_b))]
for s in ('cvc5','z3'):
    P.solve('q_period_noninterference', cs, s, 600)
