#!/usr/bin/env python3
"""Scratch prototype v2 (not framework code): explicit-state MIR symbolic executor, enough to run
SubTimeline::from_keyframes + value_at on symbolic keyframes and count paths."""
import re, sys, time
import z3

F32 = z3.Float32(); RNE = z3.RNE()
def fpv(x): return z3.FPVal(x, F32)
U64 = lambda v: z3.BitVecVal(v, 64)

class Enum:
    def __init__(s, d, payload): s.d = d; s.payload = payload
    def __repr__(s): return f"Enum({s.d},{s.payload})"
class VecObj:
    def __init__(s, items): s.items = items
class Ref:
    __slots__ = ('base', 'path')
    def __init__(s, base, path=()): s.base = base; s.path = tuple(path)
    def __repr__(s): return f"Ref({s.base},{s.path})"
class Iter:
    def __init__(s, vec_ref, idx): s.vec_ref = vec_ref; s.idx = idx
class Closure:
    def __init__(s, fn): s.fn = fn

VARIANTS = {'None': 0, 'Some': 1, 'Continue': 0, 'Break': 1, 'Custom': 29}

def clone(v):
    if isinstance(v, list): return [clone(x) for x in v]
    if isinstance(v, Enum): return Enum(v.d, {i: clone(f) for i, f in v.payload.items()})
    if isinstance(v, VecObj): return VecObj([clone(x) for x in v.items])
    if isinstance(v, Iter): return Iter(v.vec_ref, v.idx)
    return v

def split_top(s):
    out, depth, cur = [], 0, ''
    for ch in s:
        if ch in '([{<': depth += 1
        if ch in ')]}>': depth -= 1
        if ch == ',' and depth == 0: out.append(cur.strip()); cur = ''
        else: cur += ch
    if cur.strip(): out.append(cur.strip())
    return out

def parse_mir(text):
    fns = {}
    for m in re.finditer(r'^fn (.+?) \{\n(.*?)^\}', text, re.S | re.M):
        head, body = m.group(1), m.group(2)
        sig = head[:head.rfind(' -> ')] if ' -> ' in head else head
        args = re.findall(r'(_\d+): ', sig[sig.index('('):]) if '(' in sig else []
        blocks = {}
        for bm in re.finditer(r'^    (bb\d+)( \(cleanup\))?: \{\n(.*?)^    \}', body, re.S | re.M):
            if bm.group(2): continue
            blocks[bm.group(1)] = [l.strip().rstrip(';') for l in bm.group(3).strip().split('\n') if l.strip()]
        fns[head] = dict(head=head, args=args, blocks=blocks)
    return fns

class State:
    def __init__(s): s.heap = {}; s.frames = []; s.pc = []; s.next_addr = 0; s.done = None
    def copy(s):
        n = State(); n.heap = {a: clone(v) for a, v in s.heap.items()}
        n.frames = [dict(fn=f['fn'], bb=f['bb'], ip=f['ip'], env={k: clone(v) for k, v in f['env'].items()}, dst=f['dst'], nxt=f['nxt'], id=f['id']) for f in s.frames]
        n.pc = list(s.pc); n.next_addr = s.next_addr; n.done = s.done
        return n
    def alloc(s, v): s.next_addr += 1; s.heap[s.next_addr] = v; return Ref(('H', s.next_addr))

class Machine:
    def __init__(m, fns, local_map):
        m.fns = fns; m.local_map = local_map; m.solver = z3.Solver(); m.nfeas = 0; m.frame_counter = 0
    def find(m, pat):
        c = [h for h in m.fns if pat in h]; assert len(c) == 1, (pat, c); return m.fns[c[0]]

    # ----- places
    def parse_place(m, s):
        s = s.strip()
        if re.fullmatch(r'_\d+', s): return s, []
        mi = re.fullmatch(r'(.*)\[(\d+) of \d+\]', s)
        if mi:
            r, p = m.parse_place(mi.group(1)); return r, p + [('field', int(mi.group(2)))]
        assert s[0] == '(' and s[-1] == ')', s
        inner = s[1:-1].strip()
        if inner[0] == '*':
            r, p = m.parse_place(inner[1:]); return r, p + [('deref',)]
        # base chunk
        if inner[0] == '(':
            depth = 0
            for i, ch in enumerate(inner):
                if ch == '(': depth += 1
                if ch == ')':
                    depth -= 1
                    if depth == 0: break
            base, rest = inner[:i + 1], inner[i + 1:]
        else:
            mm = re.match(r'_\d+', inner); base, rest = mm.group(0), inner[mm.end():]
        r, p = m.parse_place(base)
        if rest.startswith(' as '): return r, p + [('downcast', rest[4:].strip())]
        mm = re.match(r'\.(\d+): ', rest); assert mm, (s, rest)
        return r, p + [('field', int(mm.group(1)))]

    def resolve(m, st, frame, place):
        """-> Ref pointing at the place (base is a local of this frame or heap)"""
        root, proj = m.parse_place(place)
        ref = Ref(('L', frame['id'], root))
        for p in proj:
            if p[0] == 'deref':
                ref = m.load(st, ref); assert isinstance(ref, Ref), (place, ref)
            elif p[0] == 'field': ref = Ref(ref.base, ref.path + (('f', p[1]),))
            else: ref = Ref(ref.base, ref.path + (('v', VARIANTS[p[1]]),))
        return ref

    def _container(m, st, base):
        if base[0] == 'L':
            fr = [f for f in st.frames if f['id'] == base[1]][0]; return fr['env'], base[2]
        return st.heap, base[1]

    def load(m, st, ref):
        c, k = m._container(st, ref.base); v = c[k]
        for p in ref.path:
            if p[0] == 'f': v = v[p[1]]
            elif p[0] == 'v': v = v.payload[p[1]]
            elif p[0] == 'i': v = v.items[p[1]]
        return v

    def store(m, st, ref, val):
        c, k = m._container(st, ref.base)
        if not ref.path: c[k] = val; return
        v = c[k]
        for p in ref.path[:-1]:
            if p[0] == 'f': v = v[p[1]]
            elif p[0] == 'v': v = v.payload[p[1]]
            elif p[0] == 'i': v = v.items[p[1]]
        p = ref.path[-1]
        if p[0] == 'f': v[p[1]] = val
        elif p[0] == 'i': v.items[p[1]] = val
        else: raise NotImplementedError

    # ----- operands / rvalues
    def const(m, s):
        s = s.strip()
        if s in ('true', 'false'): return z3.BoolVal(s == 'true')
        mm = re.fullmatch(r'(-?[\d.]+(?:e-?\d+)?)f32', s)
        if mm: return fpv(float(mm.group(1)))
        mm = re.fullmatch(r'(-?\d+)_(\w+)', s)
        if mm: return z3.BitVecVal(int(mm.group(1)), {'u32': 32, 'i32': 32, 'u8': 8}.get(mm.group(2), 64))
        if s == '()': return []
        raise NotImplementedError('const ' + s)

    def operand(m, st, fr, s):
        s = s.strip()
        for pre in ('no_retag copy ', 'copy ', 'move '):
            if s.startswith(pre): return clone(m.load(st, m.resolve(st, fr, s[len(pre):])))
        if s.startswith('const '): return m.const(s[6:])
        raise NotImplementedError('operand ' + s)

    def rvalue(m, st, fr, s):
        s = s.strip()
        mm = re.fullmatch(r'(\w+)\((.*)\)', s)
        if mm and mm.group(1) in ('Sub', 'Add', 'Mul', 'Div', 'Lt', 'Le', 'Gt', 'Ge', 'Eq', 'Ne', 'SubWithOverflow', 'AddWithOverflow'):
            a, b = [m.operand(st, fr, x) for x in split_top(mm.group(2))]; return m.binop(mm.group(1), a, b)
        if s.startswith('discriminant('): return m.load(st, m.resolve(st, fr, s[13:-1])).d
        if s.startswith('&'): return m.resolve(st, fr, re.sub(r'^&(mut |raw const |raw mut )?', '', s))
        if s.startswith('(') and not s.startswith('(*') and not re.match(r'\(+_\d+(\.| as )', s) and not re.match(r'\(\(', s):
            return [m.operand(st, fr, x) for x in split_top(s[1:-1])]
        mc = re.fullmatch(r'\{closure@(.*?)\} \{ (.*) \}', s)
        if mc: return [m.operand(st, fr, x.split(': ', 1)[1]) for x in split_top(mc.group(2))]
        if s.startswith('[') and s.endswith(']'): return [m.operand(st, fr, x) for x in split_top(s[1:-1])]
        mm = re.fullmatch(r'([\w:<>]+) \{ (.*) \}', s)
        if mm: return [m.operand(st, fr, x.split(': ', 1)[1]) for x in split_top(mm.group(2))]
        mm = re.fullmatch(r'Option::<.*>::(None|Some)(?:\((.*)\))?', s)
        if mm:
            idx = VARIANTS[mm.group(1)]
            return Enum(U64(idx), {idx: [m.operand(st, fr, x) for x in split_top(mm.group(2))] if mm.group(2) else []})
        return m.operand(st, fr, s)

    def binop(m, op, a, b):
        if z3.is_fp(a):
            if op in ('Sub', 'Add', 'Mul', 'Div'): return {'Sub': z3.fpSub, 'Add': z3.fpAdd, 'Mul': z3.fpMul, 'Div': z3.fpDiv}[op](RNE, a, b)
            return {'Lt': z3.fpLT, 'Le': z3.fpLEQ, 'Gt': z3.fpGT, 'Ge': z3.fpGEQ, 'Eq': z3.fpEQ, 'Ne': z3.fpNEQ}[op](a, b)
        if op == 'SubWithOverflow': return [a - b, z3.ULT(a, b)]
        if op == 'AddWithOverflow': return [a + b, z3.ULT(a + b, a)]
        return {'Eq': lambda: a == b, 'Ne': lambda: a != b, 'Lt': lambda: z3.ULT(a, b), 'Ge': lambda: z3.UGE(a, b), 'Sub': lambda: a - b, 'Add': lambda: a + b, 'Gt': lambda: z3.UGT(a, b), 'Le': lambda: z3.ULE(a, b)}[op]()

    def feasible(m, pc, cond):
        c = z3.simplify(cond)
        if z3.is_true(c): return True
        if z3.is_false(c): return False
        m.nfeas += 1
        m.solver.push(); m.solver.add(*pc, c); r = m.solver.check(); m.solver.pop()
        return r != z3.unsat

    # ----- models (trusted); return value or ('fork', [(cond, value), ...])
    def model(m, st, fr, callee, args):
        c = callee
        if c.endswith('::into_iter') :
            a = args[0]
            return a if isinstance(a, Iter) else Iter(a, 0)
        if c.endswith('as Iterator>::next'):
            it_ref = args[0]; it = m.load(st, it_ref); vec = m.load(st, it.vec_ref)
            if it.idx < len(vec.items):
                r = Enum(U64(1), {1: [Ref(it.vec_ref.base, it.vec_ref.path + (('i', it.idx),))]}); it.idx += 1; return r
            return Enum(U64(0), {0: []})
        if re.search(r'Vec::<.*>::new$', c): return VecObj([])
        if re.search(r'Vec::<.*>::push$', c): m.load(st, args[0]).items.append(args[1]); return []
        if re.search(r'Vec::<.*>::len$', c): return U64(len(m.load(st, args[0]).items))
        if re.search(r'Vec::<.*>::is_empty$', c): return z3.BoolVal(len(m.load(st, args[0]).items) == 0)
        if c.endswith('as Deref>::deref'): return args[0]
        if c.endswith(']>::last'):
            v = m.load(st, args[0]); n = len(v.items)
            return Enum(U64(1), {1: [Ref(args[0].base, args[0].path + (('i', n - 1),))]}) if n else Enum(U64(0), {0: []})
        if c.endswith(']>::first'):
            v = m.load(st, args[0]); n = len(v.items)
            return Enum(U64(1), {1: [Ref(args[0].base, args[0].path + (('i', 0),))]}) if n else Enum(U64(0), {0: []})
        if re.search(r'\]>::get::<usize>$', c):
            v = m.load(st, args[0]); idx = z3.simplify(args[1]); n = len(v.items)
            if z3.is_bv_value(idx):
                i = idx.as_long()
                return Enum(U64(1), {1: [Ref(args[0].base, args[0].path + (('i', i),))]}) if i < n else Enum(U64(0), {0: []})
            outs = [(idx == U64(i), Enum(U64(1), {1: [Ref(args[0].base, args[0].path + (('i', i),))]})) for i in range(n)]
            outs.append((z3.UGE(idx, U64(n)), Enum(U64(0), {0: []})))
            return ('fork', outs)
        if re.match(r'Option::<.*>::map::<', c):
            o = args[0]; d = z3.simplify(o.d); assert z3.is_bv_value(d)
            if d.as_long() == 0: return Enum(U64(0), {0: []})
            r = m.call_sync(st, m.find('get_bounding_frames::{closure#0}('), [args[1], o.payload[1][0]])
            return Enum(U64(1), {1: [r]})
        if c == '<usize as Ord>::max': return z3.If(z3.UGE(args[0], args[1]), args[0], args[1])
        if c in ('<Easing as Clone>::clone', '<Value as Clone>::clone'): return clone(m.load(st, args[0]))
        if c.startswith('<ValueFn as Fn<'): return m.load(st, args[0]).fn(m, st, *args[1])
        if c.endswith('as Try>::branch'):
            o = args[0]; d = z3.simplify(o.d)
            assert z3.is_bv_value(d), 'symbolic Option in Try::branch'
            return Enum(U64(0), {0: [o.payload[1][0]]}) if d.as_long() == 1 else Enum(U64(1), {1: [Enum(U64(0), {0: []})]})
        if 'from_residual' in c: return Enum(U64(0), {0: []})
        if c == 'core::f32::<impl f32>::clamp':
            x, lo, hi = args; return z3.If(z3.fpLT(x, lo), lo, z3.If(z3.fpGT(x, hi), hi, x))
        if c == '<Easing as EasingFunction>::calc': return E_UF(m.load(st, args[0]).payload[29][0], args[1])
        if c == '<Value as Lerp>::lerp': return L_UF(m.load(st, args[0]), m.load(st, args[1]), args[2])
        return None

    # ----- main loop
    def run(m, st0):
        work = [st0]; finished = []
        while work:
            st = work.pop()
            while st.done is None:
                forks = m.step(st)
                if forks is not None:
                    work.extend(forks); st = None; break
            if st is not None: finished.append(st)
        return finished

    def call(m, st, fn, args, dst, nxt):
        m.frame_counter += 1
        env = {a: v for a, v in zip(fn['args'], args)}
        st.frames.append(dict(fn=fn, bb='bb0', ip=0, env=env, dst=dst, nxt=nxt, id=m.frame_counter))

    def call_sync(m, st, fn, args):
        depth = len(st.frames); m.call(st, fn, args, '__sync__', None)
        while len(st.frames) > depth:
            assert m.step(st) is None, 'fork inside sync call'
        return st.sync_ret

    def ret(m, st, val):
        fr = st.frames.pop()
        if not st.frames: st.done = ('ret', val); return
        caller = st.frames[-1]
        if fr['dst'] == '__sync__': st.sync_ret = val; return
        m.store(st, m.resolve(st, caller, fr['dst']), val); caller['bb'] = fr['nxt']; caller['ip'] = 0

    def step(m, st):
        fr = st.frames[-1]; lines = fr['fn']['blocks'][fr['bb']]
        while fr['ip'] < len(lines) - 1:
            s = lines[fr['ip']]; fr['ip'] += 1
            if s.startswith(('StorageLive', 'StorageDead', 'nop', 'FakeRead', 'PlaceMention', 'Retag')): continue
            lhs, rhs = s.split(' = ', 1)
            m.store(st, m.resolve(st, fr, lhs), m.rvalue(st, fr, rhs))
        t = lines[-1]
        if t == 'return': m.ret(st, fr['env'].get('_0')); return None
        if t == 'unreachable': st.done = ('unreachable',); return None
        mm = re.fullmatch(r'goto -> (bb\d+)', t)
        if mm: fr['bb'] = mm.group(1); fr['ip'] = 0; return None
        mm = re.fullmatch(r'drop\(.*\) -> \[return: (bb\d+).*\]', t)
        if mm: fr['bb'] = mm.group(1); fr['ip'] = 0; return None
        mm = re.fullmatch(r'switchInt\((.*)\) -> \[(.*)\]', t)
        if mm:
            v = m.operand(st, fr, mm.group(1)); taken = []; outs = []
            for tg in [x.strip() for x in mm.group(2).split(',')]:
                val, dest = tg.split(': ')
                if val == 'otherwise': cond = z3.And([z3.Not(c) for c in taken]) if taken else z3.BoolVal(True)
                else:
                    cond = (v if int(val) != 0 else z3.Not(v)) if z3.is_bool(v) else (v == z3.BitVecVal(int(val), v.size()))
                    taken.append(cond)
                if m.feasible(st.pc, cond): outs.append((cond, dest))
            return m.fork(st, [(c, ('goto', d)) for c, d in outs])
        mm = re.fullmatch(r'assert\((!?)(.*?), "(.*?)".*\) -> \[success: (bb\d+).*\]', t)
        if mm:
            c = m.operand(st, fr, mm.group(2)); c = z3.Not(c) if mm.group(1) else c
            return m.fork(st, [(c, ('goto', mm.group(4))), (z3.Not(c), ('panic', mm.group(3)))], check=True)
        mm = re.fullmatch(r'(.+?) = (.+?)\(([^()]*(?:\([^()]*\)[^()]*)*)\) -> \[return: (bb\d+).*\]', t)
        if mm:
            dst, callee, argstr, nxt = mm.groups()
            args = [m.operand(st, fr, x) for x in split_top(argstr)] if argstr.strip() else []
            r = m.model(st, fr, callee, args)
            if r is None:
                key = m.local_map.get(callee)
                assert key, 'no model / local fn for ' + callee
                fr['ip'] = len(lines); m.call(st, m.find(key), args, dst, nxt); return None
            if isinstance(r, tuple) and r[0] == 'fork':
                return m.fork(st, [(c, ('assign', dst, v, nxt)) for c, v in r[1]], check=True)
            m.store(st, m.resolve(st, fr, dst), r); fr['bb'] = nxt; fr['ip'] = 0; return None
        raise NotImplementedError('terminator ' + t)

    def fork(m, st, outs, check=False):
        if check: outs = [(c, a) for c, a in outs if m.feasible(st.pc, c)]
        res = []
        for i, (c, act) in enumerate(outs):
            s2 = st if i == len(outs) - 1 else st.copy()
            cs = z3.simplify(c)
            if not z3.is_true(cs): s2.pc.append(cs)
            fr = s2.frames[-1]
            if act[0] == 'goto': fr['bb'] = act[1]; fr['ip'] = 0
            elif act[0] == 'panic': s2.done = ('panic', act[1])
            else: m.store(s2, m.resolve(s2, fr, act[1]), act[2]); fr['bb'] = act[3]; fr['ip'] = 0
            res.append(s2)
        return res

E_UF = z3.Function('EASE', z3.IntSort(), F32, F32)
L_UF = z3.Function('LERP', F32, F32, F32, F32)

LOCAL = {
    'SplitKeyframe::<Value>::new': 'timeline_helpers.rs:236:1: 236:40>::new(',
    'SplitKeyframe::<Value>::with_time': '::with_time(', 'SplitKeyframe::<Value>::with_value': '::with_value(',
    'SubTimeline::<Value>::empty': '::empty(', 'SubTimeline::<Value>::get_bounding_frames': '::get_bounding_frames(_1',
    'SubTimeline::<Value>::get_frame': '::get_frame(', 'interpolate_value::<Value>': 'fn interpolate_value' if False else 'interpolate_value(',
}

if __name__ == '__main__':
    N = int(sys.argv[1]) if len(sys.argv) > 1 else 3
    fns = parse_mir(open('/tmp/probe/mir/core.mir').read())
    m = Machine(fns, LOCAL)
    st = State()
    pos = [z3.FP(f'p{i}', F32) for i in range(N)]; val = [z3.FP(f'v{i}', F32) for i in range(N)]
    has = [z3.BitVec(f'has{i}', 64) for i in range(N)]; eas = [z3.BitVec(f'eas{i}', 64) for i in range(N)]
    pre = []
    for i in range(N):
        pre += [z3.fpGEQ(pos[i], fpv(0.0)), z3.fpLEQ(pos[i], fpv(1.0)), z3.ULE(has[i], 1), z3.ULE(eas[i], 1), z3.Not(z3.fpIsNaN(val[i]))]
        if i: pre.append(z3.fpLEQ(pos[i - 1], pos[i]))       # sorted (as after the builder's sort), duplicates allowed
    def easing(tag): return Enum(U64(29), {29: [z3.IntVal(tag)]})
    # Keyframe { data, easing, normalized_time };  Data = [Option<f32>]
    kfs = VecObj([[[Enum(has[i], {1: [val[i]], 0: []})], Enum(eas[i], {1: [easing(i + 1)], 0: []}), pos[i]] for i in range(N)])
    kref = st.alloc(kfs)
    getter = Closure(lambda m_, st_, data_ref: clone(m_.load(st_, data_ref))[0])
    st.pc = list(pre)
    t0 = time.time()
    m.call(st, m.find('::from_keyframes('), [kref, fpv(0.0), getter, easing(0)], None, None)
    built = m.run(st)
    print(f'N={N}: from_keyframes paths={len(built)} feas-queries={m.nfeas} {time.time()-t0:.1f}s', flush=True)
    # value_at on every built path
    t = z3.FP('t', F32); idx = z3.BitVec('idx', 64); ovr = z3.Bool('ovr')
    total = 0; panics = 0; shapes = {}
    for b in built:
        assert b.done[0] == 'ret', b.done
        sub = b.done[1]
        shapes[(len(sub[0].items), len(sub[1].items))] = shapes.get((len(sub[0].items), len(sub[1].items)), 0) + 1
        s2 = State(); s2.heap = b.heap; s2.next_addr = b.next_addr; s2.pc = b.pc + [z3.fpGEQ(t, fpv(0.0)), z3.fpLEQ(t, fpv(1.0)), z3.ULT(idx, U64(N))]
        sref = s2.alloc(sub)
        m.call(s2, m.find('::value_at('), [sref, t, idx, ovr], None, None)
        outs = m.run(s2)
        total += len(outs); panics += sum(1 for o in outs if o.done[0] == 'panic')
    print(f'N={N}: value_at total paths={total} panics={panics} shapes(frames,map)={shapes} feas-queries={m.nfeas} {time.time()-t0:.1f}s')
    ex = outs[-1]
    print('sample path result:', ex.done[1] if ex.done[0] == 'ret' else ex.done)
