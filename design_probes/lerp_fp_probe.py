import z3, time, subprocess, sys
F=z3.Float32(); RNE=z3.RNE()
def fpv(v): return z3.FPVal(v,F)
def lerp(a,b,x): return z3.fpAdd(RNE, z3.fpMul(RNE,a,z3.fpSub(RNE,fpv(1.0),x)), z3.fpMul(RNE,b,x))
def solve(name, cs, solver='cvc5', timeout=900):
    s=z3.Solver(); s.add(*cs); smt='(set-logic ALL)\n'+s.to_smt2()
    p=f'/tmp/probe/smt/{name}.smt2'; open(p,'w').write(smt)
    cmd={'cvc5':['cvc5','--lang','smt2',p],'z3':['z3',p],'z3-new':['z3-new',p]}[solver]
    t0=time.time()
    try: out=subprocess.run(cmd,capture_output=True,text=True,timeout=timeout).stdout.strip().split('\n')[0]
    except subprocess.TimeoutExpired: out='timeout'
    print(f'{name:30s} {solver:6s} {out:8s} {time.time()-t0:6.1f}s',flush=True)
a8,b8=z3.BitVecs('a b',8)
x=z3.FP('x',F)
a=z3.fpUnsignedToFP(RNE,a8,F); b=z3.fpUnsignedToFP(RNE,b8,F)
xin=[z3.fpGEQ(x,fpv(0.0)), z3.fpLEQ(x,fpv(1.0))]
r=z3.fpRoundToIntegral(z3.RNA(), lerp(a,b,x))
lo=z3.If(z3.ULE(a8,b8),a,b); hi=z3.If(z3.ULE(a8,b8),b,a)
which=sys.argv[1]
if which=='range':
    for s in ('cvc5','z3'):
        solve('u8_range', xin+[z3.Not(z3.And(z3.fpGEQ(r,lo), z3.fpLEQ(r,hi)))], s, 600)
if which=='ident':
    af=z3.FP('af',F)
    fin=[z3.Not(z3.fpIsNaN(af)),z3.Not(z3.fpIsInf(af))]
    for s in ('cvc5','z3'):
        solve('f32_ident_exact', xin+fin+[z3.Not(z3.fpEQ(lerp(af,af,x),af))], s, 300)
    # u8 identity exact
    r2=z3.fpRoundToIntegral(z3.RNA(), lerp(a,a,x))
    for s in ('cvc5','z3'):
        solve('u8_ident', xin+[z3.Not(z3.fpEQ(r2,a))], s, 600)
