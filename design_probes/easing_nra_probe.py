import z3, time
t,x=z3.Reals('t x')
def bez(c1,c2,t): return 3*(1-t)**2*t*c1 + 3*(1-t)*t**2*c2 + t**3
def q(name, *cs):
    s=z3.Solver(); s.set('timeout',60000); s.add(*cs); t0=time.time(); r=s.check(); print(name, r, round(time.time()-t0,2), s.model() if r==z3.sat else '')
# Ease = (0.25,0.1,0.25,1.0)
x1,y1,x2,y2=[z3.RealVal(v) for v in ("0.25","0.1","0.25","1.0")]
# implementation: Y(t=x). spec: exists t: X(t)=x, y=Y(t)
q('ease: impl==spec within 1e-3?', 0<=x, x<=1, 0<=t, t<=1, bez(x1,x2,t)==x, z3.Or(bez(y1,y2,x)-bez(y1,y2,t)>z3.RealVal("0.001"), bez(y1,y2,t)-bez(y1,y2,x)>z3.RealVal("0.001")))
# range + monotone for impl
q('ease: range', 0<=x, x<=1, z3.Or(bez(y1,y2,x)<0, bez(y1,y2,x)>1))
u=z3.Real('u')
q('ease: monotone', 0<=x, x<=u, u<=1, bez(y1,y2,x)>bez(y1,y2,u))
# mirror In/Out: In=(0.42,0,1,1) Out=(0,0,0.58,1): Out(x) == 1 - In(1-x)
q('in/out mirror', 0<=x, x<=1, bez(z3.RealVal(0),z3.RealVal(1),x) != 1-bez(z3.RealVal(0),z3.RealVal(1),1-x))
# generic: any c1<=c2 in [0,1] -> monotone & range
c1,c2=z3.Reals('c1 c2')
q('generic monotone', 0<=c1,c1<=c2,c2<=1, 0<=x, x<=u, u<=1, bez(c1,c2,x)>bez(c1,c2,u))
