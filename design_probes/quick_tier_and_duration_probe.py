import sys, z3, time
import importlib.util
spec=importlib.util.spec_from_file_location('proto','/tmp/probe/mirsym_proto.py'); P=importlib.util.module_from_spec(spec); spec.loader.exec_module(P)
from concurrent.futures import ThreadPoolExecutor
F32=P.F32; RNE=P.RNE; fpv=P.fpv
def mkfp(name, lowzero=0):
    bv=z3.BitVec(name+'_bits',32)
    cs=[z3.Extract(lowzero-1,0,bv)==0] if lowzero else []
    return z3.fpBVToFP(bv,F32), cs
def build(suffix='', lowzero=0):
    fns=P.parse_mir(open('/tmp/probe/mir/core.mir').read())
    ex=P.Exec(fns); gp=ex.find('::get_position(')
    (delay,c1),(dur,c2),(t,c3)=mkfp('delay'+suffix,lowzero),mkfp('dur'+suffix,lowzero),mkfp('t'+suffix,lowzero)
    rdisc=z3.BitVec('rdisc'+suffix,64); n=z3.BitVec('n'+suffix,32); reverse=z3.Bool('reverse'+suffix)
    ts=[delay,dur,P.Enum(rdisc,{1:[n]}),reverse]
    ex.call(gp,[lambda: ts,t],[],lambda pc,rv: ex.results.append((pc,('ret',rv))))
    return (delay,dur,t,rdisc,n,reverse)+P.summarize(ex.results)+(c1+c2+c3,)
fin=lambda x: z3.And(z3.Not(z3.fpIsNaN(x)),z3.Not(z3.fpIsInf(x)))
zero,one=fpv(0.0),fpv(1.0)
def pre(delay,dur,t,rdisc): return [fin(delay),fin(dur),fin(t),z3.fpGT(dur,zero),z3.fpGEQ(delay,zero),z3.fpGEQ(t,zero),z3.ULE(rdisc,2)]
jobs=[]
delay,dur,t,rdisc,n,reverse,tag,pos,rep,rev,panic,cs=build('',12)
jobs.append(('q_range_12bit', cs+pre(delay,dur,t,rdisc)+[z3.Not(panic),tag==1,z3.Not(z3.And(z3.fpGEQ(pos,zero),z3.fpLEQ(pos,one)))]))
tm=z3.fpSub(RNE,t,delay)
jobs.append(('q_repflag_12bit', cs+pre(delay,dur,t,rdisc)+[z3.Not(panic),rdisc==2,tag==1,rep!=z3.fpGT(tm,dur)]))
# periodicity narrowed: 12-bit mantissas, delay=0, t/dur < 2^8
delay2,dur2,t2,rdisc2,n2,reverse2,tag2,pos2,rep2,rev2,panic2,cs2=build('_b',12)
exact_add=z3.And(z3.fpEQ(z3.fpSub(RNE,t2,t),dur), z3.fpEQ(z3.fpSub(RNE,t2,dur),t))
r0=z3.fpRem(t,dur); remt=z3.If(z3.fpLT(r0,zero),z3.fpAdd(RNE,r0,dur),r0)
jobs.append(('q_period_12bit_q256', cs+cs2+pre(delay,dur,t,rdisc)+[z3.fpEQ(delay,zero),delay2==delay,dur2==dur,rdisc==2,rdisc2==2,z3.Not(reverse),z3.Not(reverse2),fin(t2),exact_add,
    z3.fpLT(t, z3.fpMul(RNE,dur,fpv(256.0))), z3.Not(z3.fpEQ(remt,zero)),
    z3.Not(z3.And(tag2==1, z3.fpEQ(pos2,pos), rep2))]))
# Duration monotone, secs < 2^20
s1,s2=z3.BitVecs('s1 s2',64); n1,n2_=z3.BitVecs('n1 n2',32)
def secs(s,nn): return z3.fpAdd(RNE, z3.fpUnsignedToFP(RNE,s,F32), z3.fpDiv(RNE, z3.fpUnsignedToFP(RNE,nn,F32), fpv(1e9)))
le=z3.Or(z3.ULT(s1,s2), z3.And(s1==s2, z3.ULE(n1,n2_)))
jobs.append(('q_dur_monotone_s20', [z3.ULT(s1,1<<20),z3.ULT(s2,1<<20),z3.ULT(n1,1000000000),z3.ULT(n2_,1000000000),le, z3.Not(z3.fpLEQ(secs(s1,n1),secs(s2,n2_)))]))
# same-second monotone in nanos only (all 64-bit secs)
jobs.append(('q_dur_monotone_samesec', [z3.ULT(n1,1000000000),z3.ULT(n2_,1000000000),z3.ULE(n1,n2_), z3.Not(z3.fpLEQ(secs(s1,n1),secs(s1,n2_)))]))
with ThreadPoolExecutor(5) as ex:
    list(ex.map(lambda j: P.solve(j[0],j[1],'cvc5',900), jobs))
