#!/usr/bin/env python3
"""Throw-away prototype: symbolic execution of scalar, loop-free MIR (text dump) into z3 terms.
Only to validate the design (timings, translation fidelity); not framework code."""
import re, sys, subprocess, time, itertools
import z3

F32 = z3.Float32()
RNE = z3.RNE()

def fpv(x): return z3.FPVal(x, F32)

class Enum:
    def __init__(self, d, payload): self.d = d; self.payload = payload  # payload: {idx: [fields]}
    def __repr__(self): return f"Enum({self.d},{self.payload})"

ENUMS = {
    'Repeat': ['None', 'Times', 'Infinite'],
    'TimeScalePosition': ['NotStarted', 'Active', 'Ended'],
}

def parse_mir(text):
    fns = {}
    for m in re.finditer(r'^(?:fn|const) (.+?) (?:\{|=\s*\{)\n(.*?)^\}', text, re.S | re.M):
        head, body = m.group(1), m.group(2)
        name = head.split('(')[0].strip() if head.startswith(tuple('abcdefghijklmnopqrstuvwxyz<ABCDEFGHIJKLMNOPQRSTUVWXYZ')) else head
        name = re.sub(r'\(.*', '', head).strip()
        name = name.split(':')[0].strip() if head.lstrip().startswith('time_scale::<impl') and 'promoted' in head else name
        args = re.findall(r'(_\d+): ([^,)]+)', head.split('->')[0]) if '(' in head else []
        types = dict(args)
        for lm in re.finditer(r'let (?:mut )?(_\d+): ([^;]+);', body): types[lm.group(1)] = lm.group(2).strip()
        blocks = {}
        for bm in re.finditer(r'^    (bb\d+)(?: \(cleanup\))?: \{\n(.*?)^    \}', body, re.S | re.M):
            lines = [l.strip() for l in bm.group(2).strip().split('\n') if l.strip()]
            blocks[bm.group(1)] = lines
        fns[head] = dict(head=head, args=[a for a, _ in args], types=types, blocks=blocks)
    return fns

class Panic(Exception): pass

class Exec:
    def __init__(self, fns, overflow_checks=True):
        self.fns = fns; self.overflow_checks = overflow_checks
        self.results = []  # (pathcond list, outcome) outcome = ('ret', value) | ('panic', msg)

    def find(self, pat):
        c = [h for h in self.fns if pat in h]
        assert len(c) == 1, (pat, c)
        return self.fns[c[0]]

    # ---- places -------------------------------------------------
    def parse_place(self, s):
        s = s.strip()
        # returns (root local, [proj]) where proj in ('deref',) ('field',i) ('downcast',name)
        def rec(s):
            s = s.strip()
            if re.fullmatch(r'_\d+', s): return (s, [])
            if s.startswith('(') and s.endswith(')'):
                inner = s[1:-1].strip()
                if inner.startswith('*'):
                    r, p = rec(inner[1:]); return (r, p + [('deref',)])
                m = re.fullmatch(r'(.*) as (\w+)', inner)
                if m and not re.search(r'\.\d+: ', inner.split(' as ')[-1]):
                    r, p = rec(m.group(1)); return (r, p + [('downcast', m.group(2))])
                m = re.fullmatch(r'(.*)\.(\d+): (.*)', inner)
                if m:
                    # need leftmost balanced split: find the field projection at top level
                    base = self._split_field(inner)
                    r, p = rec(base[0]); return (r, p + [('field', int(base[1]))])
            raise NotImplementedError('place ' + s)
        return rec(s)

    def _split_field(self, inner):
        depth = 0
        # find last ".N: " at depth 0
        best = None
        for m in re.finditer(r'\.(\d+): ', inner):
            pre = inner[:m.start()]
            if pre.count('(') == pre.count(')'): best = m
        return (inner[:best.start()], best.group(1))

    def read(self, env, place):
        root, proj = self.parse_place(place)
        v = env[root]
        for p in proj:
            if p[0] == 'deref': v = v()  # refs are thunks returning the referent container
            elif p[0] == 'field': v = v[p[1]]
            elif p[0] == 'downcast':
                en = v; idx = self._variant_index(p[1]); v = en.payload[idx]
        return v

    def _variant_index(self, name):
        for e, vs in ENUMS.items():
            if name in vs: return vs.index(name)
        raise KeyError(name)

    def write(self, env, place, val):
        root, proj = self.parse_place(place)
        if not proj: env[root] = val; return
        v = env[root]
        for p in proj[:-1]:
            if p[0] == 'deref': v = v()
            elif p[0] == 'field': v = v[p[1]]
            else: v = v.payload[self._variant_index(p[1])]
        last = proj[-1]
        assert last[0] == 'field'
        v[last[1]] = val

    # ---- operands / rvalues ---------------------------------------
    def const(self, s, ty=None):
        s = s.strip()
        if s in ('true', 'false'): return z3.BoolVal(s == 'true')
        m = re.fullmatch(r'(-?[\d.]+(?:e-?\d+)?)f32', s)
        if m: return fpv(float(m.group(1)))
        m = re.fullmatch(r'(-?\d+)_(u32|usize|isize|i32|u8)', s)
        if m: return z3.BitVecVal(int(m.group(1)), {'u32': 32, 'i32': 32, 'u8': 8}.get(m.group(2), 64))
        if s.endswith('INFINITY'): return z3.fpPlusInfinity(F32)
        if s.endswith('u32>::MAX'): return z3.BitVecVal(2**32 - 1, 32)
        if 'promoted' in s:
            f = self.find(s.replace('time_scale::TimeScale::', ''))  # prototype hack
            raise NotImplementedError
        raise NotImplementedError('const ' + s)

    def operand(self, env, s):
        s = s.strip()
        if s.startswith('copy ') or s.startswith('move '): return self.read(env, s[5:])
        if s.startswith('no_retag copy '): return self.read(env, s[14:])
        if s.startswith('const '): return self.const(s[6:])
        raise NotImplementedError('operand ' + s)

    def rvalue(self, env, s, dst_ty):
        s = s.strip()
        m = re.fullmatch(r'(\w+)\((.*)\)', s)
        BIN = {'Sub', 'Add', 'Mul', 'Div', 'Rem', 'Lt', 'Le', 'Gt', 'Ge', 'Eq', 'Ne', 'AddWithOverflow'}
        if m and m.group(1) in BIN:
            a, b = [self.operand(env, x) for x in split_top(m.group(2))]
            return self.binop(m.group(1), a, b)
        if s.startswith('discriminant('):
            v = self.read(env, s[len('discriminant('):-1]); return v.d
        if s.startswith('&'):
            pl = s.lstrip('&').replace('mut ', '').strip()
            root, proj = self.parse_place(pl)
            return (lambda pl=pl, env=env: self.read(env, pl))
        m = re.fullmatch(r'(.*) as f32 \(IntToFloat\)', s)
        if m:
            v = self.operand(env, m.group(1)); return z3.fpToFP(RNE, v, F32) if False else z3.fpUnsignedToFP(RNE, v, F32)
        if s.startswith('(') and s.endswith(')') and not s.startswith('(*') and ': ' not in s.split(',')[0]:
            return [self.operand(env, x) for x in split_top(s[1:-1])]
        m = re.fullmatch(r'(\w+) \{ (.*) \}', s)
        if m: return [self.operand(env, x.split(': ', 1)[1]) for x in split_top(m.group(2))]
        m = re.fullmatch(r'(?:[\w:]+::)?(\w+)::(\w+)(?:\((.*)\))?', s)
        if m and m.group(1) in ENUMS:
            idx = ENUMS[m.group(1)].index(m.group(2))
            fields = [self.operand(env, x) for x in split_top(m.group(3))] if m.group(3) else []
            return Enum(z3.BitVecVal(idx, 64), {idx: fields})
        return self.operand(env, s)

    def binop(self, op, a, b):
        fp = z3.is_fp(a)
        if fp:
            if op == 'Sub': return z3.fpSub(RNE, a, b)
            if op == 'Add': return z3.fpAdd(RNE, a, b)
            if op == 'Mul': return z3.fpMul(RNE, a, b)
            if op == 'Div': return z3.fpDiv(RNE, a, b)
            if op == 'Rem':  # exact fmod for a>=0,b>0 finite (documented precondition of the prototype)
                r0 = z3.fpRem(a, b)
                return z3.If(z3.fpLT(r0, fpv(0.0)), z3.fpAdd(RNE, r0, b), r0)
            return {'Lt': z3.fpLT, 'Le': z3.fpLEQ, 'Gt': z3.fpGT, 'Ge': z3.fpGEQ, 'Eq': z3.fpEQ, 'Ne': z3.fpNEQ}[op](a, b)
        if op == 'AddWithOverflow':
            s = a + b; return [s, z3.ULT(s, a)]
        if op == 'Eq': return a == b
        raise NotImplementedError(op)

    # ---- execution -----------------------------------------------------
    def call(self, fn, args, pc, k):
        env = {}
        for a, v in zip(fn['args'], args): env[a] = v
        self.run(fn, 'bb0', env, pc, k)

    def run(self, fn, bb, env, pc, k):
        """k(pc, retval) continuation on return"""
        while True:
            lines = fn['blocks'][bb]
            for st in lines[:-1]:
                st = st.rstrip(';')
                if st.startswith(('StorageLive', 'StorageDead', 'nop', 'FakeRead', 'PlaceMention')): continue
                lhs, rhs = st.split(' = ', 1)
                self.write(env, lhs, self.rvalue(env, rhs, None))
            t = lines[-1].rstrip(';')
            if t == 'return': return k(pc, env.get('_0'))
            if t == 'unreachable': return
            m = re.fullmatch(r'goto -> (bb\d+)', t)
            if m: bb = m.group(1); continue
            m = re.fullmatch(r'switchInt\((.*)\) -> \[(.*)\]', t)
            if m:
                v = self.operand(env, m.group(1))
                targets = [x.strip() for x in m.group(2).split(',')]
                taken = []
                for tg in targets:
                    val, dest = tg.split(': ')
                    if val == 'otherwise':
                        cond = z3.And([c for c in taken]) if taken else z3.BoolVal(True)
                        cond = z3.And([z3.Not(c) for c in taken]) if taken else z3.BoolVal(True)
                    else:
                        if z3.is_bool(v): cond = v if int(val) != 0 else z3.Not(v)
                        else: cond = (v == z3.BitVecVal(int(val), v.size()))
                        taken.append(cond)
                    cond = z3.simplify(cond)
                    if z3.is_false(cond): continue
                    env2 = clone_env(env)
                    self.run(fn, dest, env2, pc + ([] if z3.is_true(cond) else [cond]), k)
                return
            m = re.fullmatch(r'assert\((!?)(.*?), "(.*?)".*\) -> \[success: (bb\d+).*\]', t)
            if m:
                c = self.operand(env, m.group(2))
                if m.group(1) == '!': c = z3.Not(c)
                c = z3.simplify(c)
                if self.overflow_checks and not z3.is_true(c):
                    self.results.append((pc + [z3.Not(c)], ('panic', m.group(3))))
                    pc = pc + [c]
                bb = m.group(4); continue
            m = re.fullmatch(r'(.+?) = (.+?)\((.*)\) -> \[return: (bb\d+).*\]', t)
            if m:
                dst, callee, argstr, nxt = m.groups()
                args = [self.operand(env, x) for x in split_top(argstr)] if argstr.strip() else []
                if callee == '<&u32 as PartialEq>::eq':
                    self.write(env, dst, args[0]()() == args[1]()()); bb = nxt; continue
                key = {'TimeScale::position_ended': '::position_ended(', 'TimeScaleLoopState::new': 'time_scale.rs:187:1: 187:24>::new(',
                       'timeline::Repeat::as_ordinal': '::as_ordinal(', '<timeline::Repeat as PartialEq>::eq': 'timeline.rs:465:43: 465:52>::eq('}[callee]
                callee_fn = self.find(key)
                def kk(pc2, rv, env=env, dst=dst, nxt=nxt, fn=fn):
                    e2 = clone_env(env); self.write(e2, dst, rv); self.run(fn, nxt, e2, pc2, k)
                self.call(callee_fn, args, pc, kk)
                return
            raise NotImplementedError('terminator ' + t)

def clone_env(env):
    def cl(v):
        if isinstance(v, list): return [cl(x) for x in v]
        if isinstance(v, Enum): return Enum(v.d, {i: cl(f) for i, f in v.payload.items()})
        return v
    return {k: cl(v) for k, v in env.items()}

def split_top(s):
    out, depth, cur = [], 0, ''
    for ch in s:
        if ch in '([{': depth += 1
        if ch in ')]}': depth -= 1
        if ch == ',' and depth == 0: out.append(cur.strip()); cur = ''
        else: cur += ch
    if cur.strip(): out.append(cur.strip())
    return out

def summarize(results):
    """merge path results into a single symbolic (tag, pos, is_rep, is_rev, panic) tuple via ite"""
    tag = z3.BitVecVal(99, 8); pos = fpv(0.0); rep = z3.BoolVal(False); rev = z3.BoolVal(False); panic = z3.BoolVal(False)
    for pc, out in results:
        c = z3.And(pc) if pc else z3.BoolVal(True)
        if out[0] == 'panic': panic = z3.If(c, z3.BoolVal(True), panic); continue
        v = out[1]; d = z3.simplify(v.d).as_long()
        tag = z3.If(c, z3.BitVecVal(d, 8), tag)
        if d == 1:
            pos = z3.If(c, v.payload[1][0], pos); rep = z3.If(c, v.payload[1][1][0], rep); rev = z3.If(c, v.payload[1][1][1], rev)
        if d == 2: pos = z3.If(c, v.payload[2][0], pos)
    return tag, pos, rep, rev, panic

def solve(name, assertions, solver='cvc5', timeout=600):
    s = z3.Solver(); s.add(*assertions)
    smt = '(set-logic ALL)\n' + s.to_smt2().replace('(set-info :status unknown)', '')
    path = f'/tmp/probe/smt/{name}.smt2'; open(path, 'w').write(smt)
    cmd = {'cvc5': ['cvc5', '--lang', 'smt2', '--produce-models', path], 'z3': ['z3', path]}[solver]
    t0 = time.time()
    try:
        out = subprocess.run(cmd, capture_output=True, text=True, timeout=timeout).stdout.strip().split('\n')[0]
    except subprocess.TimeoutExpired: out = 'timeout'
    print(f'{name:40s} {solver:5s} {out:8s} {time.time()-t0:7.1f}s', flush=True)
    return out

if __name__ == '__main__':
    fns = parse_mir(open('/tmp/probe/mir/core.mir').read())
    ex = Exec(fns)
    gp = ex.find('::get_position(')
    delay, dur, t = z3.FP('delay', F32), z3.FP('dur', F32), z3.FP('t', F32)
    rdisc = z3.BitVec('rdisc', 64); n = z3.BitVec('n', 32); reverse = z3.Bool('reverse')
    repeat = Enum(rdisc, {1: [n]})
    ts = [delay, dur, repeat, reverse]
    ex.call(gp, [lambda: ts, t], [], lambda pc, rv: ex.results.append((pc, ('ret', rv))))
    print('paths:', len(ex.results))
    tag, pos, rep, rev, panic = summarize(ex.results)
    fin = lambda x: z3.And(z3.Not(z3.fpIsNaN(x)), z3.Not(z3.fpIsInf(x)))
    pre = [fin(delay), fin(dur), fin(t), z3.fpGT(dur, fpv(0.0)), z3.fpGEQ(delay, fpv(0.0)), z3.fpGEQ(t, fpv(0.0)), z3.ULE(rdisc, 2)]
    which = sys.argv[1:] or ['range', 'notstarted', 'panic', 'hold1', 'rep_flag']
    one, zero = fpv(1.0), fpv(0.0)
    if 'range' in which:
        solve('c03_range', pre + [z3.Not(panic), tag == 1, z3.Not(z3.And(z3.fpGEQ(pos, zero), z3.fpLEQ(pos, one)))])
    if 'notstarted' in which:
        solve('c03_notstarted_iff', pre + [z3.Not(panic), (tag == 0) != z3.fpLT(t, delay)])
    if 'panic' in which:
        solve('c20_no_panic', pre + [panic])
    if 'hold1' in which:
        # end of every forward pass (non-reversing): tm == m*dur exactly for integer m>=1 within repeats -> pos == 1.0
        tm = z3.fpSub(RNE, t, delay)
        r0 = z3.fpRem(tm, dur); rem = z3.If(z3.fpLT(r0, zero), z3.fpAdd(RNE, r0, dur), r0)
        solve('c02_hold_at_one', pre + [z3.Not(panic), rdisc == 2, z3.Not(reverse), z3.fpGEQ(tm, dur), z3.fpEQ(rem, zero), z3.Not(z3.And(tag == 1, z3.fpEQ(pos, one)))])
    if 'rep_flag' in which:
        tm = z3.fpSub(RNE, t, delay)
        # is_repeating must be false throughout the first cycle (tm <= dur) and true after it (tm > dur), infinite repeat
        solve('c10_rep_flag', pre + [z3.Not(panic), rdisc == 2, tag == 1, rep != z3.fpGT(tm, dur)])
