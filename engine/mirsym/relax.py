"""Real-arithmetic relaxation of path conditions, used ONLY to prune infeasible branches quickly.

Every FP term is mapped to (real value, negative-zero flag, NaN flag).  Comparisons, ite, neg, abs and the
classification predicates are translated exactly; every other FP operation becomes a fresh unconstrained
triple.  For every IEEE assignment there is a relaxed assignment that gives each atom the same truth value
(+-inf are played by reals beyond every other value), so relaxed-UNSAT implies FP-UNSAT: pruning with this
oracle never drops a feasible path.  Paths it lets through although they are FP-infeasible only produce
vacuous obligations.
"""
import z3

_FP_PRED = {z3.Z3_OP_FPA_LT: 'lt', z3.Z3_OP_FPA_LE: 'le', z3.Z3_OP_FPA_GT: 'gt', z3.Z3_OP_FPA_GE: 'ge', z3.Z3_OP_FPA_EQ: 'eq',
            z3.Z3_OP_FPA_IS_NAN: 'isnan', z3.Z3_OP_FPA_IS_INF: 'isinf', z3.Z3_OP_FPA_IS_ZERO: 'iszero',
            z3.Z3_OP_FPA_IS_NEGATIVE: 'isneg', z3.Z3_OP_FPA_IS_POSITIVE: 'ispos',
            z3.Z3_OP_FPA_IS_NORMAL: 'abstract', z3.Z3_OP_FPA_IS_SUBNORMAL: 'abstract'}


class Relax:
    def __init__(self):
        self.memo_b = {}; self.memo_f = {}; self.hasfp = {}; self.n = 0
        self.keep = []          # keeps every memoised AST alive: z3 reuses ids of freed ASTs
        self.axioms = []        # sound facts about abstracted operations (sign-exactness of IEEE add/sub)

    def fresh(self, sort, hint='a'):
        self.n += 1
        return z3.Const(f'rx!{hint}!{self.n}', sort)

    def has_fp(self, e):
        k = e.get_id()
        r = self.hasfp.get(k)
        if r is None:
            r = z3.is_fp(e) or z3.is_fprm(e) or any(self.has_fp(c) for c in e.children())
            self.hasfp[k] = r; self.keep.append(e)
        return r

    def fp(self, e):
        k = e.get_id()
        r = self.memo_f.get(k)
        if r is not None:
            return r
        if z3.is_fp_value(e):
            if e.isNaN():
                r = (z3.RealVal(0), z3.BoolVal(False), z3.BoolVal(True))
            elif e.isInf():
                r = (self.fresh(z3.RealSort(), 'inf'), z3.BoolVal(False), z3.BoolVal(False))
            else:
                rv = z3.simplify(z3.fpToReal(e))
                r = (rv, z3.BoolVal(bool(e.isZero() and e.isNegative())), z3.BoolVal(False))
        elif z3.is_app(e) and e.num_args() == 0:
            nm = e.decl().name()
            r = (z3.Real('rx.r.' + nm), z3.Bool('rx.z.' + nm), z3.Bool('rx.n.' + nm))
        elif z3.is_app(e) and e.decl().kind() == z3.Z3_OP_ITE:
            c = self.b(e.arg(0)); a = self.fp(e.arg(1)); b = self.fp(e.arg(2))
            r = (z3.If(c, a[0], b[0]), z3.If(c, a[1], b[1]), z3.If(c, a[2], b[2]))
        elif z3.is_app(e) and e.decl().kind() == z3.Z3_OP_FPA_NEG:
            a = self.fp(e.arg(0)); r = (-a[0], z3.Not(a[1]), a[2])
        elif z3.is_app(e) and e.decl().kind() == z3.Z3_OP_FPA_ABS:
            a = self.fp(e.arg(0)); r = (z3.If(a[0] < 0, -a[0], a[0]), z3.BoolVal(False), a[2])
        else:
            r = (self.fresh(z3.RealSort(), 'r'), self.fresh(z3.BoolSort(), 'z'), self.fresh(z3.BoolSort(), 'n'))
            kind = e.decl().kind() if z3.is_app(e) else None
            if kind in (z3.Z3_OP_FPA_SUB, z3.Z3_OP_FPA_ADD) and e.num_args() == 3:
                # IEEE add/sub of non-NaN operands never changes the sign of the exact result (gradual underflow):
                # a - b < 0 <=> a < b, = 0 <=> a = b, > 0 <=> a > b   (inf - inf is NaN and is excluded by the NaN flag)
                a = self.fp(e.arg(1)); b = self.fp(e.arg(2))
                bb = b[0] if kind == z3.Z3_OP_FPA_SUB else -b[0]
                g = z3.And(z3.Not(a[2]), z3.Not(b[2]), z3.Not(r[2]))
                self.axioms.append(z3.Implies(g, z3.And((r[0] < 0) == (a[0] < bb), (r[0] > 0) == (a[0] > bb))))
                self.axioms.append(z3.Implies(z3.Or(a[2], b[2]), r[2]))
            elif kind in (z3.Z3_OP_FPA_MUL, z3.Z3_OP_FPA_DIV) and e.num_args() == 3:
                # the sign of a non-zero, non-NaN product/quotient is the product of the signs (it may underflow to 0)
                a = self.fp(e.arg(1)); b = self.fp(e.arg(2))
                g = z3.And(z3.Not(a[2]), z3.Not(b[2]), z3.Not(r[2]))
                self.axioms.append(z3.Implies(g, z3.And(z3.Implies(r[0] > 0, z3.Or(z3.And(a[0] > 0, b[0] > 0), z3.And(a[0] < 0, b[0] < 0))),
                                                        z3.Implies(r[0] < 0, z3.Or(z3.And(a[0] > 0, b[0] < 0), z3.And(a[0] < 0, b[0] > 0))))))
                self.axioms.append(z3.Implies(z3.Or(a[2], b[2]), r[2]))
        self.memo_f[k] = r; self.keep.append(e)
        return r

    def b(self, e):
        k = e.get_id()
        r = self.memo_b.get(k)
        if r is not None:
            return r
        r = self._b(e)
        self.memo_b[k] = r; self.keep.append(e)
        return r

    def _b(self, e):
        if not self.has_fp(e):
            return e
        if not z3.is_app(e):
            return self.fresh(z3.BoolSort(), 'q')
        kind = e.decl().kind()
        ch = e.children()
        if kind == z3.Z3_OP_AND: return z3.And([self.b(c) for c in ch])
        if kind == z3.Z3_OP_OR: return z3.Or([self.b(c) for c in ch])
        if kind == z3.Z3_OP_NOT: return z3.Not(self.b(ch[0]))
        if kind == z3.Z3_OP_IMPLIES: return z3.Implies(self.b(ch[0]), self.b(ch[1]))
        if kind == z3.Z3_OP_XOR: return z3.Xor(self.b(ch[0]), self.b(ch[1]))
        if kind == z3.Z3_OP_ITE and z3.is_bool(e): return z3.If(self.b(ch[0]), self.b(ch[1]), self.b(ch[2]))
        if kind in (z3.Z3_OP_EQ, z3.Z3_OP_DISTINCT) and len(ch) == 2:
            if z3.is_bool(ch[0]):
                x = self.b(ch[0]) == self.b(ch[1])
            elif z3.is_fp(ch[0]):
                a, b = self.fp(ch[0]), self.fp(ch[1])
                # SMT `=` on floats: identical values (NaN = NaN, +0 != -0)
                x = z3.Or(z3.And(a[2], b[2]), z3.And(z3.Not(a[2]), z3.Not(b[2]), a[0] == b[0], z3.Implies(a[0] == 0, a[1] == b[1])))
            else:
                # bit-vector (or other) terms with FP inside: abstract the FP-containing sides
                x = self.term(ch[0]) == self.term(ch[1])
            return x if kind == z3.Z3_OP_EQ else z3.Not(x)
        p = _FP_PRED.get(kind)
        if p is not None and p != 'abstract':
            a = self.fp(ch[0])
            if p in ('lt', 'le', 'gt', 'ge', 'eq'):
                b = self.fp(ch[1])
                ok = z3.And(z3.Not(a[2]), z3.Not(b[2]))
                rel = {'lt': a[0] < b[0], 'le': a[0] <= b[0], 'gt': a[0] > b[0], 'ge': a[0] >= b[0], 'eq': a[0] == b[0]}[p]
                return z3.And(ok, rel)
            if p == 'isnan': return a[2]
            if p == 'isinf': return self.fresh(z3.BoolSort(), 'inf') if not z3.is_fp_value(ch[0]) else z3.BoolVal(ch[0].isInf())
            if p == 'iszero': return z3.And(z3.Not(a[2]), a[0] == 0)
            if p == 'isneg': return z3.And(z3.Not(a[2]), z3.Or(a[0] < 0, z3.And(a[0] == 0, a[1])))
            if p == 'ispos': return z3.And(z3.Not(a[2]), z3.Or(a[0] > 0, z3.And(a[0] == 0, z3.Not(a[1]))))
        # bit-vector comparisons etc. whose arguments contain FP terms
        if all(not z3.is_fp(c) and not z3.is_fprm(c) for c in ch) and z3.is_bool(e):
            try:
                return e.decl()(*[self.term(c) for c in ch])
            except z3.Z3Exception:
                pass
        return self.fresh(z3.BoolSort(), 'q')

    def term(self, e):
        """non-FP, non-Bool term possibly containing FP sub-terms"""
        if z3.is_bool(e): return self.b(e)
        if not self.has_fp(e): return e
        k = ('t', e.get_id())
        r = self.memo_b.get(k)
        if r is None:
            if z3.is_app(e) and e.decl().kind() == z3.Z3_OP_ITE:
                r = z3.If(self.b(e.arg(0)), self.term(e.arg(1)), self.term(e.arg(2)))
            elif z3.is_app(e) and e.num_args() > 0 and all(not z3.is_fp(c) and not z3.is_fprm(c) for c in e.children()):
                # bit-vector / integer operator over sub-terms that merely CONTAIN float terms deeper down: keep the operator
                try:
                    r = e.decl()(*[self.term(c) for c in e.children()])
                except z3.Z3Exception:
                    r = self.fresh(e.sort(), 't')
            else:
                r = self.fresh(e.sort(), 't')
            self.memo_b[k] = r; self.keep.append(e)
        return r
