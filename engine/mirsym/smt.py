"""SMT back end: z3 terms -> SMT-LIB2 text -> portfolio of external solvers (cvc5, z3) racing per query."""
import os, re, subprocess, tempfile, time, struct, threading, signal
from concurrent.futures import ThreadPoolExecutor
import z3

SOLVERS = {
    'cvc5': ['cvc5', '--lang', 'smt2', '--produce-models'],
    'z3': ['/usr/bin/z3', '-smt2'],
    'z3new': ['z3-new', '-smt2'],
}


class Result:
    def __init__(self, status, solver=None, secs=0.0, model=None, detail=''):
        self.status = status      # 'unsat' | 'sat' | 'unknown' | 'timeout' | 'error'
        self.solver = solver; self.secs = secs; self.model = model or {}; self.detail = detail

    def __repr__(self):
        return f'<{self.status} {self.solver} {self.secs:.2f}s>'


def to_smt2(assertions, get_values=()):
    s = z3.Solver()
    for a in assertions:
        s.add(a)
    txt = s.to_smt2()
    txt = txt.replace('(set-info :status unknown)', '')
    # z3 prints (check-sat) at the end
    out = '(set-logic ALL)\n(set-option :produce-models true)\n' + txt
    if get_values:
        declared = set(re.findall(r'\(declare-(?:fun|const) (\|[^|]*\||[^\s()]+)', out))
        names = ' '.join(n for n in (smt_name(v) for v in get_values) if n in declared or n.strip('|') in declared)
        if names:
            out += f'(get-value ({names}))\n'
    return out


def smt_name(v):
    n = str(v)
    if re.fullmatch(r'[A-Za-z_][A-Za-z0-9_.]*', n):
        return n
    return '|' + n + '|'


# ---------------------------------------------------------------- s-expression value parsing
def _tokens(s):
    return re.findall(r'\(|\)|\|[^|]*\||[^\s()]+', s)


def _parse(tokens, i=0):
    if tokens[i] == '(':
        lst = []; i += 1
        while tokens[i] != ')':
            x, i = _parse(tokens, i); lst.append(x)
        return lst, i + 1
    return tokens[i], i + 1


def _bits(tok):
    if tok.startswith('#b'): return tok[2:]
    if tok.startswith('#x'): return bin(int(tok[2:], 16))[2:].zfill(4 * (len(tok) - 2))
    raise ValueError(tok)


def parse_value(v):
    """-> python value: bool | int (bit-vector, unsigned) | ('fp', bits:int, ebits, sbits)"""
    if isinstance(v, str):
        if v == 'true': return True
        if v == 'false': return False
        if v.startswith('#'):
            b = _bits(v); return ('bv', int(b, 2), len(b))
        try:
            return int(v)
        except ValueError:
            return v
    if v and v[0] == 'fp':
        s, e, m = _bits(v[1]), _bits(v[2]), _bits(v[3])
        return ('fp', int(s + e + m, 2), len(e), len(m) + 1)
    if v and v[0] == '_':
        if v[1].startswith('bv'):
            return ('bv', int(v[1][2:]), int(v[2]))
        eb, sb = int(v[2]), int(v[3])
        tot = eb + sb
        if v[1] == '+zero': return ('fp', 0, eb, sb)
        if v[1] == '-zero': return ('fp', 1 << (tot - 1), eb, sb)
        if v[1] == '+oo': return ('fp', ((1 << eb) - 1) << (sb - 1), eb, sb)
        if v[1] == '-oo': return ('fp', (1 << (tot - 1)) | (((1 << eb) - 1) << (sb - 1)), eb, sb)
        if v[1] == 'NaN': return ('fp', (((1 << eb) - 1) << (sb - 1)) | (1 << (sb - 2)), eb, sb)
    if v and v[0] == '-' and len(v) == 2:
        return -parse_value(v[1])
    return v


def parse_get_value(text):
    text = text.strip()
    if not text.startswith('('):
        return {}
    try:
        toks = _tokens(text)
        tree, _ = _parse(toks)
    except Exception:
        return {}
    out = {}
    for pair in tree:
        if isinstance(pair, list) and len(pair) == 2:
            name = pair[0].strip('|') if isinstance(pair[0], str) else str(pair[0])
            out[name] = parse_value(pair[1])
    return out


def fp_to_float(v):
    _, bits, eb, sb = v
    if eb == 8: return struct.unpack('<f', struct.pack('<I', bits))[0]
    return struct.unpack('<d', struct.pack('<Q', bits))[0]


# ---------------------------------------------------------------- running solvers
def _run_one(name, path, timeout):
    cmd = SOLVERS[name] + [path]
    return subprocess.Popen(cmd, stdout=subprocess.PIPE, stderr=subprocess.PIPE, text=True,
                            preexec_fn=lambda: (os.setsid(), __import__('resource').setrlimit(
                                __import__('resource').RLIMIT_AS, (12 << 30, 12 << 30))))


def _kill(p):
    try:
        os.killpg(os.getpgid(p.pid), signal.SIGKILL)
    except Exception:
        pass


def solve_text(smt_text, timeout=60, solvers=('cvc5', 'z3'), keep=None):
    fd, path = tempfile.mkstemp(suffix='.smt2', dir=keep or os.environ.get('VERIF_SMT_DIR') or None)
    with os.fdopen(fd, 'w') as f:
        f.write(smt_text)
    t0 = time.time()
    procs = {}
    try:
        for s in solvers:
            procs[s] = _run_one(s, path, timeout)
        verdicts = {}
        while procs and time.time() - t0 < timeout:
            for s, p in list(procs.items()):
                if p.poll() is not None:
                    out, err = p.communicate()
                    del procs[s]
                    first = out.strip().split('\n')[0].strip() if out.strip() else ''
                    pre_err = first.startswith('(error') or ('(error' in err and first not in ('sat', 'unsat'))
                    if first == 'unsat' and not pre_err:
                        for q in procs.values(): _kill(q)
                        return Result('unsat', s, time.time() - t0)
                    if pre_err or (first not in ('sat', 'unsat') and '(error' in out):
                        verdicts[s] = Result('error', s, time.time() - t0, detail=(out + err)[:400])
                    elif first in ('sat', 'unsat'):
                        model = parse_get_value(out.strip().split('\n', 1)[1]) if first == 'sat' and '\n' in out.strip() else {}
                        for q in procs.values(): _kill(q)
                        return Result(first, s, time.time() - t0, model)
                    else:
                        verdicts[s] = Result('unknown', s, time.time() - t0, detail=(out + err)[:200])
            time.sleep(0.01)
        if procs:
            for q in procs.values(): _kill(q)
            return Result('timeout', None, time.time() - t0, detail=f'{timeout}s; ' + ';'.join(f'{k}:{v.status}' for k, v in verdicts.items()))
        # all finished without a verdict
        if any(v.status == 'error' for v in verdicts.values()) :
            return Result('error', None, time.time() - t0, detail=' | '.join(v.detail for v in verdicts.values()))
        return Result('unknown', None, time.time() - t0, detail=' | '.join(v.detail for v in verdicts.values()))
    finally:
        for q in procs.values(): _kill(q)
        if not keep:
            try: os.unlink(path)
            except OSError: pass


def solve(assertions, timeout=60, solvers=('cvc5', 'z3'), get_values=()):
    return solve_text(to_smt2(assertions, get_values), timeout, solvers)


def solve_many(jobs, workers=8):
    """jobs: list of (key, smt_text, timeout, solvers) -> dict key -> Result (parallel)"""
    out = {}
    with ThreadPoolExecutor(max_workers=workers) as ex:
        futs = {ex.submit(solve_text, txt, to, sv): key for key, txt, to, sv in jobs}
        for f in futs:
            out[futs[f]] = f.result()
    return out
