"""Parser for the textual MIR emitted by `rustc -Zunpretty=mir` (nightly pinned in this image).

Fails closed: any statement / terminator / rvalue form that is not recognised is kept as
('unsupported', text) and makes the executor stop with an INCONCLUSIVE outcome when it is reached.
"""
import re, os, hashlib

BINOPS = {'Add', 'Sub', 'Mul', 'Div', 'Rem', 'BitXor', 'BitAnd', 'BitOr', 'Shl', 'Shr', 'Eq', 'Lt', 'Le', 'Ne',
          'Ge', 'Gt', 'Cmp', 'AddWithOverflow', 'SubWithOverflow', 'MulWithOverflow', 'AddUnchecked',
          'SubUnchecked', 'MulUnchecked', 'ShlUnchecked', 'ShrUnchecked', 'Offset'}
UNOPS = {'Not', 'Neg', 'PtrMetadata'}


class Fn:
    __slots__ = ('name', 'last', 'args', 'ret', 'blocks', 'locals', 'impl_span', 'impl_trait', 'impl_self',
                 'text_hash', 'kind', 'crate', 'nlines', '_linked', 'owner')

    def __repr__(self):
        return f'<Fn {self.name}>'


def split_top(s, sep=','):
    """split on top-level separators, respecting () [] {} <> and string literals"""
    out, depth, cur, i, n = [], 0, [], 0, len(s)
    while i < n:
        ch = s[i]
        if ch == '"':
            j = i + 1
            while j < n and s[j] != '"':
                j += 2 if s[j] == '\\' else 1
            cur.append(s[i:j + 1]); i = j + 1; continue
        if ch in '([{':
            depth += 1
        elif ch in ')]}':
            depth -= 1
        elif ch == '<':
            depth += 1
        elif ch == '>':
            if i > 0 and s[i - 1] in '-=':      # '->' / '=>'
                pass
            else:
                depth -= 1
        if ch == sep and depth == 0:
            out.append(''.join(cur).strip()); cur = []
        else:
            cur.append(ch)
        i += 1
    t = ''.join(cur).strip()
    if t:
        out.append(t)
    return out


def match_paren(s, i):
    """s[i] == '(' -> index of matching ')', counting only parentheses (strings skipped)"""
    depth, n = 0, len(s)
    while i < n:
        ch = s[i]
        if ch == '"':
            i += 1
            while i < n and s[i] != '"':
                i += 2 if s[i] == '\\' else 1
        elif ch == '(':
            depth += 1
        elif ch == ')':
            depth -= 1
            if depth == 0:
                return i
        i += 1
    raise ValueError('unbalanced: ' + s)


def parse_place(s, i=0):
    """-> (place, next_index); place = (local:int, projections tuple)"""
    if s[i] == '_':
        m = re.compile(r'_(\d+)').match(s, i)
        place = (int(m.group(1)), ())
        i = m.end()
    elif s[i] == '(':
        if s[i + 1] == '*':
            inner, j = parse_place(s, i + 2)
            assert s[j] == ')', (s, j)
            place = (inner[0], inner[1] + (('deref',),)); i = j + 1
        else:
            inner, j = parse_place(s, i + 1)
            if s.startswith(' as ', j):
                k = s.index(')', j)
                place = (inner[0], inner[1] + (('downcast', s[j + 4:k].strip()),)); i = k + 1
            elif s[j] == '.':
                m = re.compile(r'\.(\d+): ').match(s, j)
                assert m, (s, j)
                # type runs to the paren matching the opening one at i
                k = match_paren(s, i)
                place = (inner[0], inner[1] + (('field', int(m.group(1)), s[m.end():k]),)); i = k + 1
            else:
                raise ValueError('place? ' + s[i:])
    else:
        raise ValueError('place? ' + s[i:])
    while i < len(s) and s[i] == '[':
        k = s.index(']', i)
        inner = s[i + 1:k]
        m = re.fullmatch(r'_(\d+)', inner)
        if m:
            place = (place[0], place[1] + (('index', int(m.group(1))),))
        else:
            m = re.fullmatch(r'(-?\d+) of (\d+)', inner)
            if m:
                place = (place[0], place[1] + (('cindex', int(m.group(1)), int(m.group(2))),))
            else:
                place = (place[0], place[1] + (('unsupported', inner),))
        i = k + 1
    return place, i


def parse_operand(s):
    s = s.strip()
    if s.startswith('no_retag '):
        s = s[9:]
    if s.startswith('copy '):
        p, j = parse_place(s, 5); assert j == len(s), s
        return ('copy', p)
    if s.startswith('move '):
        p, j = parse_place(s, 5); assert j == len(s), s
        return ('move', p)
    if s.startswith('const '):
        return ('const', s[6:].strip())
    # bare function item / path used as operand
    return ('const', s)


def parse_rvalue(s):
    s = s.strip()
    if s.startswith('no_retag '):
        s = s[9:]
    m = re.match(r'(\w+)\(', s)
    if m and s.endswith(')'):
        op = m.group(1)
        if op in BINOPS:
            a, b = split_top(s[m.end():-1])
            return ('binop', op, parse_operand(a), parse_operand(b))
        if op in UNOPS:
            return ('unop', op, parse_operand(s[m.end():-1]))
        if op == 'discriminant':
            p, j = parse_place(s, m.end()); return ('discriminant', p)
        if op == 'Len':
            p, j = parse_place(s, m.end()); return ('len', p)
        if op in ('SizeOf', 'AlignOf'):
            return ('unsupported', s)
    if s.startswith('&'):
        mm = re.match(r'&(mut |raw const |raw mut |fake shallow |fake deep |fake )?', s)
        p, j = parse_place(s, mm.end()); assert j == len(s), s
        return ('ref', p, (mm.group(1) or '').strip())
    if s.startswith('deref_copy '):
        p, j = parse_place(s, 11); return ('use', ('copy', p))
    if s.startswith(('copy ', 'move ', 'const ')):
        # use or cast
        if s.endswith(')') and ' as ' in s:
            mm = re.search(r' \((\w+(?:\([^()]*\))?)\)$', s)
            if mm:
                body = s[:mm.start()]
                # split 'operand as Type' at the LAST top-level ' as ' that is outside parens
                depth = 0; pos = -1
                for i in range(len(body)):
                    ch = body[i]
                    if ch in '([{': depth += 1
                    elif ch in ')]}': depth -= 1
                    elif depth == 0 and body.startswith(' as ', i): pos = i
                if pos >= 0:
                    try:
                        return ('cast', parse_operand(body[:pos]), body[pos + 4:].strip(), mm.group(1))
                    except (ValueError, AssertionError):
                        pass
        return ('use', parse_operand(s))
    if s.startswith('('):
        # tuple aggregate (places never appear bare as rvalues)
        inner = s[1:-1].strip()
        if inner.endswith(','):
            inner = inner[:-1]
        return ('tuple', [parse_operand(x) for x in split_top(inner)] if inner else [])
    if s.startswith('['):
        inner = s[1:-1]
        parts = split_top(inner, ';')
        if len(parts) == 2:
            return ('repeat', parse_operand(parts[0]), parts[1].strip())
        return ('array', [parse_operand(x) for x in split_top(inner)])
    mm = re.fullmatch(r'(\{closure@[^{}]*\})(?: \{ (.*) \})?', s)
    if mm:
        caps = [parse_operand(x.split(': ', 1)[1]) for x in split_top(mm.group(2))] if mm.group(2) else []
        return ('closure', mm.group(1), caps)
    # struct aggregate  Path { f: op, ... }
    if s.endswith('}') and ' { ' in s:
        k = s.index(' { ')
        name = s[:k]; inner = s[k + 3:-2].strip() if s.endswith(' }') else ''
        fields = []
        for x in split_top(inner):
            fname, val = x.split(': ', 1)
            fields.append((fname.strip(), parse_operand(val)))
        return ('struct', name, fields)
    # Path::Variant(op, ...)  or tuple struct
    if s.endswith(')'):
        # find the '(' matching the final ')'
        depth = 0
        for i in range(len(s) - 1, -1, -1):
            if s[i] == ')': depth += 1
            elif s[i] == '(':
                depth -= 1
                if depth == 0: break
        name = s[:i]; inner = s[i + 1:-1]
        return ('ctor', name, [parse_operand(x) for x in split_top(inner)])
    if re.fullmatch(r'[\w:<>, &\'\[\]();=]+', s) and ('=' not in s or ('<' in s and s.index('<') < s.index('='))):
        return ('unit', s)            # unit variant or unit struct
    return ('unsupported', s)


def parse_statement(s):
    if s.startswith(('StorageLive(', 'StorageDead(', 'nop', 'FakeRead(', 'PlaceMention(', 'AscribeUserType(', 'Retag(',
                     'Coverage', 'ConstEvalCounter', 'BackwardIncompatibleDropHint', '// ')):
        return None
    if s.startswith('Deinit('):
        return None
    if s.startswith('assume('):
        return ('assume', parse_operand(s[7:-1]))
    m = re.match(r'discriminant\((.*)\) = (-?\d+)$', s)
    if m:
        p, _ = parse_place(m.group(1)); return ('setdiscr', p, int(m.group(2)))
    if s.find(' = ') < 0:
        return ('unsupported', s)
    try:
        p, j = parse_place(s, 0)          # the place ends where its parentheses close: ' = ' inside a type is skipped
        assert s.startswith(' = ', j), s
        k = j
        return ('assign', p, parse_rvalue(s[k + 3:]))
    except (ValueError, AssertionError, IndexError) as e:
        return ('unsupported', s)


def parse_targets(t):
    out = {}
    for part in split_top(t):
        k, v = part.split(': ')
        out[k.strip()] = v.strip()
    return out


def parse_terminator(s):
    if s == 'return': return ('return',)
    if s == 'unreachable': return ('unreachable',)
    if s in ('resume', 'terminate', 'abort') or s.startswith(('resume', 'terminate(')): return ('resume',)
    m = re.fullmatch(r'goto -> (bb\d+)', s)
    if m: return ('goto', m.group(1))
    m = re.fullmatch(r'falseEdge -> \[real: (bb\d+), imaginary: bb\d+\]', s)
    if m: return ('goto', m.group(1))
    m = re.fullmatch(r'falseUnwind -> \[real: (bb\d+).*\]', s)
    if m: return ('goto', m.group(1))
    m = re.fullmatch(r'switchInt\((.*)\) -> \[(.*)\]', s)
    if m:
        tg = []
        for part in split_top(m.group(2)):
            k, v = part.split(': ')
            tg.append((None if k.strip() == 'otherwise' else int(k), v.strip()))
        return ('switch', parse_operand(m.group(1)), tg)
    m = re.fullmatch(r'drop\((.*)\) -> \[return: (bb\d+).*\]', s)
    if m:
        return ('drop', m.group(2))
    m = re.fullmatch(r'drop\((.*)\) -> (bb\d+)', s)
    if m:
        return ('drop', m.group(2))
    if s.startswith('assert('):
        k = match_paren(s, 6)
        inner = s[7:k]
        parts = split_top(inner)
        cond = parts[0]; neg = False
        if cond.startswith('!'):
            neg = True; cond = cond[1:]
        msg = parts[1] if len(parts) > 1 else ''
        mm = re.search(r'success: (bb\d+)', s[k:])
        return ('assert', parse_operand(cond), neg, msg.strip('"'), mm.group(1))
    # call
    mm = re.search(r' -> \[return: (bb\d+)(?:, unwind[^\]]*)?\]$', s)
    if mm:
        nxt = mm.group(1); body = s[:mm.start()]
    else:
        mm = re.search(r' -> unwind [\w ]+$', s)
        if mm:
            nxt = None; body = s[:mm.start()]
        else:
            return ('unsupported', s)
    k = body.find(' = ')
    try:
        dst, j = parse_place(body, 0)
        assert j == k
    except Exception:
        return ('unsupported', s)
    rhs = body[k + 3:]
    # find '(' matching the final ')'
    assert rhs.endswith(')'), s
    depth = 0; i = len(rhs) - 1; instr = False
    while i >= 0:
        ch = rhs[i]
        if ch == '"' and (i == 0 or rhs[i - 1] != '\\'):
            instr = not instr
        elif not instr:
            if ch == ')': depth += 1
            elif ch == '(':
                depth -= 1
                if depth == 0: break
        i -= 1
    callee = rhs[:i].strip(); argstr = rhs[i + 1:-1]
    args = [parse_operand(x) for x in split_top(argstr)] if argstr.strip() else []
    if callee.startswith(('move ', 'copy ')):
        callee = ('op', parse_operand(callee))
    return ('call', dst, callee, args, nxt)


_HEAD = re.compile(r'^(fn|static|const) (.*) \{$|^(static|const) (mut )?(.*) = \{$|^(const) (.*): (.*) = (const .*);$')


def strip_generics(s):
    out, depth = [], 0
    i = 0
    while i < len(s):
        ch = s[i]
        if ch == '<':
            depth += 1
        elif ch == '>' and not (i > 0 and s[i - 1] == '-'):
            depth -= 1
        elif depth == 0:
            out.append(ch)
        i += 1
    return ''.join(out)


def type_head(t):
    """'&mut std::vec::Vec<T>' -> 'Vec' ; '{closure@...}' stays; '[f32]' -> '[f32]'"""
    t = t.strip()
    while True:
        if t.startswith('&'):
            t = re.sub(r"^&('\w+ )?(mut )?", '', t).strip()
        elif t.startswith('*const ') or t.startswith('*mut '):
            t = t.split(' ', 1)[1].strip()
        else:
            break
    if t.startswith(('{closure@', '[', '(', 'dyn ', 'impl ', '<')):
        return t
    base = strip_generics(t).strip()
    while base.endswith('::'): base = base[:-2]
    base = base.split('::')[-1] if not base.startswith('{') else base
    return base.strip()


def last_segment(name):
    """last path segment of a (generic-free) item name, keeping {closure#n} suffix chains"""
    segs = split_path(name)
    i = len(segs) - 1
    while i > 0 and (segs[i].startswith('{') or segs[i].startswith('promoted[')):
        i -= 1
    return '::'.join(segs[i:])


def split_path(name):
    """split a path on top-level '::'"""
    out, depth, cur, i = [], 0, [], 0
    while i < len(name):
        ch = name[i]
        if ch in '<([{': depth += 1
        elif ch in ')]}': depth -= 1
        elif ch == '>' and not (i > 0 and name[i - 1] == '-'): depth -= 1
        if depth == 0 and name.startswith('::', i):
            out.append(''.join(cur)); cur = []; i += 2; continue
        cur.append(ch); i += 1
    out.append(''.join(cur))
    return out


_SRC_CACHE = {}


def _src_lines(path, roots):
    for r in roots:
        p = path if os.path.isabs(path) else os.path.join(r, path)
        if p in _SRC_CACHE: return _SRC_CACHE[p]
        if os.path.exists(p):
            _SRC_CACHE[p] = open(p, encoding='utf-8', errors='replace').read().split('\n')
            return _SRC_CACHE[p]
    return None


def impl_header(span, roots):
    """span = (file, l1, c1, l2, c2) -> (trait_head or None, self_head or None) read from the source text"""
    f, l1, c1, l2, c2 = span
    lines = _src_lines(f, roots)
    if not lines or l1 > len(lines): return None, None
    if l1 == l2:
        txt = lines[l1 - 1][c1 - 1:c2 - 1]
    else:
        txt = lines[l1 - 1][c1 - 1:] + ' ' + ' '.join(lines[l1:l2 - 1]) + ' ' + lines[l2 - 1][:c2 - 1]
    txt = ' '.join(txt.split())
    if not txt.startswith('impl'):
        # derive attribute: the span text is the derive name (Clone, Debug, PartialEq, Animate ...); the deriving type is
        # the next struct / enum item in the source
        target = None
        for ln in lines[l1 - 1:l1 + 12]:
            mm = re.search(r'\b(?:struct|enum)\s+(\w+)', ln)
            if mm: target = mm.group(1); break
        return ('derive:' + txt.strip(), ('@derive', target))
    txt = txt[4:].strip()
    if txt.startswith('<'):
        depth = 0
        for i, ch in enumerate(txt):
            if ch == '<': depth += 1
            elif ch == '>' and txt[i - 1] != '-':
                depth -= 1
                if depth == 0: break
        txt = txt[i + 1:].strip()
    txt = re.split(r'\bwhere\b', txt)[0].strip()
    parts = re.split(r'\s+for\s+', txt)
    if len(parts) == 2:
        return type_head(parts[0]), type_head(parts[1])
    return None, type_head(parts[0])


class Program:
    def __init__(self):
        self.fns = []            # all Fn objects
        self.by_last = {}        # last segment -> [Fn]
        self.by_name = {}        # full name -> [Fn]
        self.closures = {}       # '{closure@...}' -> Fn
        self.statics = {}        # name -> Fn (body evaluated lazily)
        self.consts = {}         # name -> text ('const 2_usize') or Fn
        self.src_roots = []
        self._last_by_name = {}

    def add_text(self, text, crate, roots):
        self.src_roots = list(dict.fromkeys(self.src_roots + roots))
        self._cur_roots = list(roots)
        lines = text.split('\n')
        i, n = 0, len(lines)
        while i < n:
            ln = lines[i]
            if ln.startswith(('fn ', 'static ', 'const ')) and ln.endswith('{'):
                j = i + 1
                while j < n and lines[j] != '}':
                    j += 1
                self._add_item(ln, lines[i + 1:j], crate)
                i = j + 1; continue
            m = re.match(r'^const (.*): (.*) = (const .*);$', ln)
            if m:
                self.consts[m.group(1)] = m.group(3)
            i += 1
        self.link_closures()

    def link_closures(self):
        """several closures of one function can share one type string (macro-generated code: all spans are the
        derive attribute).  They are told apart by order of appearance: the j-th closure created in the parent's
        body (block order) is the parent's j-th `{closure#k}` with that type string."""
        groups = {}
        for f in self.fns:
            if f.kind == 'fn' and '{closure#' in f.name and f.args:
                mm = re.search(r'\{closure@[^{}]*\}', f.args[0][1])
                if mm:
                    parent = re.sub(r'::\{closure#\d+\}$', '', f.name)
                    groups.setdefault((parent, mm.group(0)), []).append(f)
        for (parent, tstr), fs in groups.items():
            if len(fs) < 2: continue
            fs.sort(key=lambda f: int(re.search(r'\{closure#(\d+)\}$', f.name).group(1)))
            if getattr(fs[0], '_linked', False): continue
            for j, f in enumerate(fs):
                self.closures[tstr[:-1] + f'#{j}' + '}'] = f; f._linked = True
            for pf in self.by_name.get(parent, []):
                counter = [0]
                def rw(x):
                    if isinstance(x, str):
                        if x == tstr or x == 'ZeroSized: ' + tstr:
                            j = counter[0]; counter[0] += 1
                            return x[:-1] + f'#{j}' + '}'
                        return x
                    if isinstance(x, tuple): return tuple(rw(y) for y in x)
                    if isinstance(x, list): return [rw(y) for y in x]
                    return x
                for bb in sorted(pf.blocks, key=lambda b: int(b[2:])):
                    st, term = pf.blocks[bb]
                    st2 = []
                    for t in st:
                        if t[0] == 'assign': st2.append(('assign', t[1], rw(t[2])))
                        else: st2.append(t)
                    if term[0] == 'call':
                        term = ('call', term[1], term[2], rw(term[3]), term[4])
                    pf.blocks[bb] = (st2, term)

    def _add_item(self, head, body, crate):
        f = Fn(); f.crate = crate
        f.text_hash = hashlib.sha256(('\n'.join([head] + body)).encode()).hexdigest()[:16]
        f.nlines = len(body)
        if head.startswith('fn '):
            f.kind = 'fn'
            h = head[3:-2]
            k = h.index('(')
            # the def name never contains '(' except inside <impl at ...> (no) — but closures `{closure#0}` fine
            f.name = h[:k]
            e = match_paren(h, k)
            argstr = h[k + 1:e]
            f.args = []
            for a in split_top(argstr):
                mm = re.match(r'(?:mut )?_(\d+): (.*)', a)
                f.args.append((int(mm.group(1)), mm.group(2)))
            f.ret = h[e + 1:].strip()[3:].strip() if '->' in h[e + 1:] else '()'
        else:
            f.kind = 'static' if head.startswith('static') else 'const'
            h = head[len(f.kind) + 1:-4]       # strip ' = {'
            if h.startswith('mut '): h = h[4:]
            # name: Type   — split at the last top-level ': '
            depth = 0; pos = -1
            for i in range(len(h)):
                ch = h[i]
                if ch in '<([{': depth += 1
                elif ch in ')]}': depth -= 1
                elif ch == '>' and h[i - 1] != '-': depth -= 1
                elif depth == 0 and h.startswith(': ', i) and h[i - 1] != ':' : pos = i
            f.name = h[:pos]; f.ret = h[pos + 2:]; f.args = []
        f.impl_span = None; f.impl_trait = None; f.impl_self = None
        mm = re.search(r'<impl at (.+?):(\d+):(\d+): (\d+):(\d+)>', f.name)
        if mm:
            f.impl_span = (mm.group(1), int(mm.group(2)), int(mm.group(3)), int(mm.group(4)), int(mm.group(5)))
            f.impl_trait, f.impl_self = impl_header(f.impl_span, self._cur_roots)
            f.owner = None
            if isinstance(f.impl_self, tuple):
                f.owner = f.impl_self[1]; f.impl_self = None
            if (f.impl_self is None or f.impl_self.startswith('$')):
                f.impl_self = type_head(f.args[0][1]) if f.args else type_head(f.ret)
        nm = re.sub(r'<impl at [^>]*>', '<impl>', f.name)
        f.last = last_segment(nm)
        # locals + blocks
        f.locals = {}
        f.blocks = {}
        cur = None; stmts = None
        for ln in body:
            s = ln.strip()
            if not s: continue
            if cur is None:
                mm = re.match(r'let (?:mut )?_(\d+): (.*);$', s)
                if mm:
                    f.locals[int(mm.group(1))] = mm.group(2); continue
            mm = re.match(r'(bb\d+)( \(cleanup\))?: \{$', s)
            if mm:
                cur = mm.group(1); stmts = []; cleanup = bool(mm.group(2)); continue
            if cur is not None:
                if s == '}':
                    if not cleanup and stmts:
                        term = parse_terminator(stmts[-1])
                        f.blocks[cur] = ([x for x in (parse_statement(t) for t in stmts[:-1]) if x is not None], term)
                    cur = None; continue
                stmts.append(s[:-1] if s.endswith(';') else s)
        for a, t in f.args:
            f.locals[a] = t
        # nested items (fn inside a method of a macro-generated impl) are attributed to the Self type of the closest
        # preceding definition of their parent function (the dump lists nested items right after their parent)
        if not getattr(f, 'owner', None): f.owner = None
        segs = split_path(f.name)
        if len(segs) >= 2 and f.owner is None:
            parent = '::'.join(segs[:-1])
            pf = self._last_by_name.get(parent)
            if pf is not None and pf.args:
                f.owner = type_head(pf.args[0][1])
        self._last_by_name[f.name] = f
        self.fns.append(f)
        if f.kind == 'fn':
            self.by_last.setdefault(f.last, []).append(f)
            self.by_name.setdefault(f.name, []).append(f)
            if f.args:
                t0 = f.args[0][1]
                mm = re.search(r'\{closure@[^{}]*\}', t0)
                if mm and '{closure#' in f.name:
                    self.closures.setdefault(mm.group(0), f)
        elif f.kind == 'static':
            self.statics[f.name] = f
        else:
            self.consts[f.name] = f
