"""Value model of the MIR symbolic executor (value level, no byte-level heap)."""
import z3

F32 = z3.Float32()
F64 = z3.Float64()
RNE = z3.RNE()
RTZ = z3.RTZ()
RNA = z3.RNA()

INT_BITS = {'u8': 8, 'u16': 16, 'u32': 32, 'u64': 64, 'u128': 128, 'usize': 64,
            'i8': 8, 'i16': 16, 'i32': 32, 'i64': 64, 'i128': 128, 'isize': 64, 'char': 32}


def is_signed(ty):
    return ty[0] == 'i'


class PathEnd(Exception):
    pass


class Panic(PathEnd):
    def __init__(self, msg):
        self.msg = msg


class Unsupported(PathEnd):
    """the executor met something outside its supported subset: the obligation is INCONCLUSIVE"""
    def __init__(self, msg):
        self.msg = msg


class Infeasible(PathEnd):
    pass


class Sc:
    __slots__ = ('ty', 't')

    def __init__(self, ty, t):
        self.ty = ty; self.t = t

    def __repr__(self):
        return f'Sc({self.ty},{self.t})'


class Agg:
    """struct / tuple (name None) / array (name '[]') / closure (name '{closure@..}')"""
    __slots__ = ('name', 'f')

    def __init__(self, name, f):
        self.name = name; self.f = f

    def __repr__(self):
        return f'Agg({self.name},{self.f})'


class En:
    """enum value: d = discriminant (python int or z3 BV64 term), p = {discr: [fields]}"""
    __slots__ = ('name', 'd', 'p')

    def __init__(self, name, d, p=None):
        self.name = name; self.d = d; self.p = p if p is not None else {}

    def __repr__(self):
        return f'En({self.name},{self.d},{self.p})'


class VecObj:
    __slots__ = ('items',)

    def __init__(self, items):
        self.items = items

    def __repr__(self):
        return f'Vec{self.items}'


class Cell:
    """heap cell (Box, promoted, model-allocated)"""
    __slots__ = ('v',)

    def __init__(self, v):
        self.v = v

    def __getitem__(self, k):
        return self.v

    def __setitem__(self, k, v):
        self.v = v


class Ref:
    __slots__ = ('c', 'k', 'path')

    def __init__(self, c, k, path=()):
        self.c = c; self.k = k; self.path = path

    def __repr__(self):
        return f'Ref({type(self.c).__name__}@{id(self.c) % 10000},{self.k},{self.path})'

    def same(self, o):
        return self.c is o.c and self.k == o.k and self.path == o.path


class FnItem:
    __slots__ = ('name',)

    def __init__(self, name):
        self.name = name

    def __repr__(self):
        return f'FnItem({self.name})'


class Opaque:
    """python-level model object (iterators, adaptors, strings ...)"""
    def __init__(self, kind, **kw):
        self.kind = kind
        self.__dict__.update(kw)

    def __repr__(self):
        return f'Opaque({self.kind})'


UNIT = Agg(None, [])


def clone(v):
    if isinstance(v, Sc) or isinstance(v, Ref) or isinstance(v, FnItem):
        return v
    if isinstance(v, Agg):
        return Agg(v.name, [clone(x) for x in v.f])
    if isinstance(v, En):
        return En(v.name, v.d, {k: [clone(x) for x in f] for k, f in v.p.items()})
    if isinstance(v, VecObj):
        return VecObj([clone(x) for x in v.items])
    if isinstance(v, Opaque):
        o = Opaque(v.kind); o.__dict__.update(v.__dict__); return o
    if v is None:
        return None
    raise Unsupported(f'clone of {type(v)}')


def bv(n, bits):
    return z3.BitVecVal(n, bits)


def mk_int(ty, n):
    return Sc(ty, z3.BitVecVal(n, INT_BITS[ty]))


def mk_bool(b):
    return Sc('bool', z3.BoolVal(bool(b)) if isinstance(b, bool) else b)


def mk_f32(x):
    return Sc('f32', z3.FPVal(x, F32) if not z3.is_expr(x) else x)


def mk_f64(x):
    return Sc('f64', z3.FPVal(x, F64) if not z3.is_expr(x) else x)


def usize(n):
    return Sc('usize', z3.BitVecVal(n, 64) if isinstance(n, int) else n)


def some(v):
    return En('Option', 1, {1: [v]})


def none():
    return En('Option', 0, {0: []})


def concrete(t):
    """python value of a z3 term if it simplifies to a literal, else None"""
    if isinstance(t, (int, bool)):
        return t
    s = z3.simplify(t)
    if z3.is_bv_value(s):
        return s.as_long()
    if z3.is_true(s):
        return True
    if z3.is_false(s):
        return False
    return None


def signed_val(n, bits):
    return n - (1 << bits) if n >= (1 << (bits - 1)) else n
