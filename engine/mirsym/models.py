"""Library models: the trusted base of the executor.

Only functions whose bodies are NOT in the dumped MIR are modelled here (std, num-traits, dyn-clone,
lazy_static, enum-map, euclid/lyon scalar helpers).  Every model used by a run is recorded in
Machine.models_used and ends up in the evidence file.
"""
import re
import z3
from .values import *
from .parser import type_head

ORD = lambda d: En('Ordering', d)


def const_model(m, s):
    if s in ('Less', 'Equal', 'Greater') or s.endswith(('Ordering::Less', 'Ordering::Equal', 'Ordering::Greater')):
        return En('Ordering', {'Less': -1, 'Equal': 0, 'Greater': 1}[s.rsplit('::', 1)[-1]])
    if s.endswith('Duration::MAX'):
        return mk_duration(z3.BitVecVal(DUR_MAX, 128))
    if s.endswith('Duration::ZERO'):
        return mk_duration(z3.BitVecVal(0, 128))
    if re.search(r'(^|::)(<impl )?f32>?::INFINITY$', s): return Sc('f32', z3.fpPlusInfinity(F32))
    if re.search(r'(^|::)(<impl )?f32>?::NEG_INFINITY$', s): return Sc('f32', z3.fpMinusInfinity(F32))
    if re.search(r'(^|::)(<impl )?f32>?::NAN$', s): return Sc('f32', z3.fpNaN(F32))
    if re.search(r'(^|::)(<impl )?f32>?::MAX$', s): return Sc('f32', z3.FPVal(3.4028234663852886e38, F32))
    if re.search(r'(^|::)(<impl )?f32>?::MIN$', s): return Sc('f32', z3.FPVal(-3.4028234663852886e38, F32))
    if re.search(r'(^|::)(<impl )?f32>?::EPSILON$', s): return Sc('f32', z3.FPVal(2.0 ** -23, F32))
    mm = re.search(r'(^|::)(<impl )?(u8|u16|u32|u64|usize|i8|i16|i32|i64|isize)>?::(MAX|MIN)$', s)
    if mm:
        ty = mm.group(3); bits = INT_BITS[ty]
        if mm.group(4) == 'MAX':
            return mk_int(ty, (1 << (bits - 1)) - 1 if is_signed(ty) else (1 << bits) - 1)
        return mk_int(ty, -(1 << (bits - 1)) if is_signed(ty) else 0)
    mm = re.search(r'Scalar>::(ZERO|ONE|TWO|THREE|FOUR|FIVE|SIX|HALF)$', s)
    if mm:
        # lyon_geom's generic Scalar constants; mina instantiates CubicBezierSegment only at f32
        return Sc('f32', z3.FPVal({'ZERO': 0.0, 'ONE': 1.0, 'TWO': 2.0, 'THREE': 3.0, 'FOUR': 4.0, 'FIVE': 5.0, 'SIX': 6.0, 'HALF': 0.5}[mm.group(1)], F32))
    if s.endswith('SizedTypeProperties>::ALIGN'): return Sc('usize', z3.BitVecVal(8, 64))
    if s.endswith('SizedTypeProperties>::SIZE'): return Sc('usize', z3.BitVecVal(16, 64))
    if 'Lazy::<' in s and s.endswith('::INIT'):
        return Agg('Lazy', [])
    if s.endswith('PhantomData') or 'PhantomData::<' in s:
        return Agg('PhantomData', [])
    return None


# ---------------------------------------------------------------------------------------------- Duration
# A Duration is modelled as its total number of nanoseconds (u128 term); std stores (secs: u64, nanos: u32)
# with nanos < 1e9, which is the same information.  Overflow of the u64 seconds field is checked where
# std checks it.
NANOS = 10 ** 9
DUR_MAX = (2 ** 64) * NANOS - 1


def mk_duration(n):
    return Agg('Duration', [Sc('u128', n)])


def dur_nanos(m, d):
    while isinstance(d, Ref): d = m.load(d)
    return d.f[0].t


def duration_from_secs_f32(m, x):
    """exact model of std's try_from_secs! for f32: round-to-nearest (ties even) nanoseconds; panics like std"""
    mode = getattr(m, 'duration_mode', 'exact')
    if mode == 'uf':
        D = z3.Function('DUR_FROM_F32', F32, z3.BitVecSort(128))
        bad = z3.Or(z3.fpIsNaN(x), z3.fpIsInf(x), z3.fpLT(x, z3.FPVal(0.0, F32)), z3.fpGEQ(x, z3.FPVal(2.0 ** 64, F32)))
        if m.branch(bad):
            raise Panic('Duration::from_secs_f32: negative, overflow or NaN')
        n = D(x)
        m.assume(z3.ULE(n, z3.BitVecVal(DUR_MAX, 128)))
        m.assume(z3.Implies(z3.fpIsZero(x), n == 0))
        # magnitude: x < 2^40 s  =>  fewer than 2^71 ns (1e9 < 2^30; rounding adds at most 1)
        m.assume(z3.Implies(z3.fpLT(x, z3.FPVal(2.0 ** 40, F32)), z3.ULE(n, z3.BitVecVal(1 << 71, 128))))
        return mk_duration(n)
    neg = z3.fpLT(x, z3.FPVal(0.0, F32))
    if m.branch(neg):
        raise Panic('Duration::from_secs_f32: negative')
    bits = m.fresh('f32bits', z3.BitVecSort(32))
    # to_bits: x is not NaN on the surviving side only if we check; NaN has exp 255 -> overflow error below
    m.assume(z3.If(z3.fpIsNaN(x), z3.And(z3.Extract(30, 23, bits) == 255, z3.Extract(22, 0, bits) != 0),
                   z3.fpBVToFP(bits, F32) == x))
    m.assume(z3.Implies(z3.fpIsZero(x), z3.Extract(30, 0, bits) == 0))
    mant = z3.ZeroExt(105, z3.Extract(22, 0, bits)) | z3.BitVecVal(1 << 23, 128)
    e = z3.ZeroExt(120, z3.Extract(30, 23, bits)) - z3.BitVecVal(127, 128)      # exp as signed 128
    ovf = e >= z3.BitVecVal(64, 128)          # signed compare
    if m.branch(ovf):
        raise Panic('Duration::from_secs_f32: overflow or NaN')
    # value = mant * 2^(e-23); total = round_even(mant * 1e9 * 2^(e-23))
    prod = mant * z3.BitVecVal(NANOS, 128)       # < 2^24 * 2^30 = 2^54
    sh = e - z3.BitVecVal(23, 128)
    left = prod << sh                            # used when sh >= 0 (sh <= 40 -> < 2^94)
    rs = -sh                                     # right shift amount when sh < 0 (1 .. 23+126)
    rs_c = z3.If(z3.UGT(rs, z3.BitVecVal(100, 128)), z3.BitVecVal(100, 128), rs)
    q = z3.LShR(prod, rs_c)
    rem = prod - (q << rs_c)
    half = z3.BitVecVal(1, 128) << (rs_c - 1)
    up = z3.Or(z3.UGT(rem, half), z3.And(rem == half, z3.Extract(0, 0, q) == 1))
    rounded = z3.If(up, q + 1, q)
    # std returns 0 for exp < -31 (less than 1ns and "can not be rounded to it")
    total = z3.If(e < z3.BitVecVal(-31, 128), z3.BitVecVal(0, 128), z3.If(sh >= 0, left, rounded))
    return mk_duration(total)


def duration_as_secs_f32(m, n):
    mode = getattr(m, 'duration_mode', 'exact')
    if mode == 'uf':
        S = z3.Function('DUR_AS_F32', z3.BitVecSort(128), F32)
        r = S(n)
        m.assume(z3.And(z3.Not(z3.fpIsNaN(r)), z3.Not(z3.fpIsInf(r)), z3.fpGEQ(r, z3.FPVal(0.0, F32)), z3.Not(z3.fpIsNegative(r))))     # never -0.0
        m.assume(z3.Implies(n == 0, z3.fpIsZero(r)))
        return Sc('f32', r)
    secs = z3.Extract(63, 0, z3.UDiv(n, z3.BitVecVal(NANOS, 128)))
    nanos = z3.Extract(31, 0, z3.URem(n, z3.BitVecVal(NANOS, 128)))
    return Sc('f32', z3.fpAdd(RNE, z3.fpUnsignedToFP(RNE, secs, F32),
                              z3.fpDiv(RNE, z3.fpUnsignedToFP(RNE, nanos, F32), z3.FPVal(1e9, F32))))


# ---------------------------------------------------------------------------------------------- helpers
def deref_all(m, v):
    while isinstance(v, Ref):
        v = m.load(v)
    return v


def seq_of(m, r):
    """Ref/value -> (list of items, ref to the sequence or None)"""
    ref = None
    v = r
    while isinstance(v, Ref):
        ref = v; v = m.load(v)
    if isinstance(v, VecObj): return v.items, ref
    if isinstance(v, Agg) and v.name == '[]': return v.f, ref
    raise Unsupported(f'not a sequence: {v!r}')


def elem_ref(ref, i):
    return Ref(ref.c, ref.k, ref.path + (('i', i),))


def opt_payload_ref(ref):
    return Ref(ref.c, ref.k, ref.path + (('v', 1), ('f', 0)))


def is_concrete_d(d):
    return isinstance(d, int) or concrete(d) is not None


def d_val(d):
    return d if isinstance(d, int) else concrete(d)


def discr_is(m, e, k):
    """branch on enum discriminant being k (concrete fast path)"""
    c = d_val(e.d)
    if c is not None:
        if isinstance(c, int) and c >= (1 << 63): c -= (1 << 64)
        return c == k
    bits = e.d.size()
    return m.branch(e.d == z3.BitVecVal(k, bits))


def clone_value(m, v):
    """dynamic Clone::clone: user impls in the dump are executed, everything else is structural"""
    if isinstance(v, (Sc, Ref, FnItem)):
        return v
    rt = m.rt_type(v)
    if isinstance(v, (Agg, En)) and rt and not str(rt).startswith(('{', '[')) and rt not in ('Option', 'Result', 'Ordering', 'Duration', 'EnumMap', 'PhantomData', 'Box'):
        f = m.resolve_mir(rt, 'Clone', 'clone', [m.alloc(v)], f'<{rt} as Clone>::clone')
        if f is not None:
            return m.call_fn(f, [m.alloc(v)])
    if isinstance(v, Agg):
        return Agg(v.name, [clone_value(m, x) for x in v.f])
    if isinstance(v, En):
        return En(v.name, v.d, {k: [clone_value(m, x) for x in f] for k, f in v.p.items()})
    if isinstance(v, VecObj):
        return VecObj([clone_value(m, x) for x in v.items])
    return clone(v)


def eq_values(m, a, b):
    a = deref_all(m, a); b = deref_all(m, b)
    if isinstance(a, Sc) and isinstance(b, Sc):
        if a.ty in ('f32', 'f64'): return z3.fpEQ(a.t, b.t)
        return a.t == b.t
    rt = m.rt_type(a)
    if isinstance(a, (Agg, En)) and rt and rt not in ('Option', 'Ordering', 'Duration') and not str(rt).startswith(('{', '[')):
        ra, rb = m.alloc(a), m.alloc(b)
        f = m.resolve_mir(rt, 'PartialEq', 'eq', [ra, rb], f'<{rt} as PartialEq>::eq')
        if f is not None:
            return m.call_fn(f, [ra, rb]).t
    if isinstance(a, En) and isinstance(b, En):
        da = a.d if not isinstance(a.d, int) else z3.BitVecVal(a.d, 64)
        db = b.d if not isinstance(b.d, int) else z3.BitVecVal(b.d, 64)
        if da.size() != db.size():
            w = max(da.size(), db.size())
            da = z3.SignExt(w - da.size(), da) if da.size() < w else da
            db = z3.SignExt(w - db.size(), db) if db.size() < w else db
        conj = [da == db]
        for k in set(a.p) & set(b.p):
            if a.p[k]:
                inner = z3.And([eq_values(m, x, y) for x, y in zip(a.p[k], b.p[k])])
                conj.append(z3.Implies(da == z3.BitVecVal(k, da.size()), inner))
        return z3.And(conj)
    if isinstance(a, Agg) and isinstance(b, Agg):
        if len(a.f) != len(b.f): return z3.BoolVal(False)
        return z3.And([eq_values(m, x, y) for x, y in zip(a.f, b.f)]) if a.f else z3.BoolVal(True)
    if isinstance(a, VecObj) and isinstance(b, VecObj):
        if len(a.items) != len(b.items): return z3.BoolVal(False)
        return z3.And([eq_values(m, x, y) for x, y in zip(a.items, b.items)]) if a.items else z3.BoolVal(True)
    raise Unsupported(f'eq on {a!r} / {b!r}')


def total_cmp_term(x, y):
    """f32::total_cmp as an Ordering discriminant term (i8)"""
    sort = x.sort(); w = sort.ebits() + sort.sbits()
    def key(v):
        # total order key: sign-magnitude -> two's complement order; all NaNs are treated as the canonical
        # positive quiet NaN (NaN inputs are outside every valid configuration)
        isn = z3.fpIsNaN(v)
        neg = z3.And(z3.fpIsNegative(v), z3.Not(isn))
        return neg, isn
    # compare without to_bits: use IEEE comparisons plus the -0 < +0 and NaN-greatest rules
    nx, ny = z3.fpIsNaN(x), z3.fpIsNaN(y)
    zx, zy = z3.fpIsZero(x), z3.fpIsZero(y)
    negx, negy = z3.fpIsNegative(x), z3.fpIsNegative(y)
    lt = z3.If(z3.And(nx, ny), z3.BoolVal(False),
         z3.If(nx, z3.BoolVal(False),
         z3.If(ny, z3.BoolVal(True),
         z3.If(z3.And(zx, zy), z3.And(negx, z3.Not(negy)), z3.fpLT(x, y)))))
    eq = z3.If(z3.And(nx, ny), z3.BoolVal(True),
         z3.If(z3.Or(nx, ny), z3.BoolVal(False),
         z3.If(z3.And(zx, zy), negx == negy, z3.fpEQ(x, y))))
    return z3.If(lt, z3.BitVecVal(-1, 8), z3.If(eq, z3.BitVecVal(0, 8), z3.BitVecVal(1, 8)))


def ordering_is(m, o, k):
    return discr_is(m, o, k)


# ---------------------------------------------------------------------------------------------- iterators
def make_iter(m, x):
    if isinstance(x, Opaque) and x.kind.startswith('iter'):
        return x
    if isinstance(x, Ref):
        v = m.load(x)
        if isinstance(v, Opaque) and v.kind.startswith('iter'):
            return v
        if isinstance(v, (VecObj,)) or (isinstance(v, Agg) and v.name == '[]'):
            return Opaque('iter_slice', seq=x, idx=0)
        if isinstance(v, Agg) and v.name == 'MergedTimeline':
            raise Unsupported('into_iter on MergedTimeline')
        raise Unsupported(f'into_iter on ref to {v!r}')
    if isinstance(x, VecObj):
        return Opaque('iter_owned', items=x.items, idx=0)
    if isinstance(x, Agg) and x.name == '[]':
        return Opaque('iter_owned', items=x.f, idx=0)
    if isinstance(x, En) and x.name == 'Option':
        return Opaque('iter_option', opt=x, done=False)
    raise Unsupported(f'into_iter on {x!r}')


def iter_next(m, it):
    """-> value or None (exhausted).  Lengths are concrete on every path."""
    k = it.kind
    if k == 'iter_slice':
        items, ref = seq_of(m, it.seq)
        if it.idx < len(items):
            r = elem_ref(ref, it.idx); it.idx += 1; return r
        return None
    if k == 'iter_owned':
        if it.idx < len(it.items):
            v = it.items[it.idx]; it.idx += 1; return v
        return None
    if k == 'iter_map':
        v = iter_next(m, it.inner)
        if v is None: return None
        return m.call_value(it.f, [v])
    if k == 'iter_cloned':
        v = iter_next(m, it.inner)
        if v is None: return None
        return clone_value(m, m.load(v))
    if k == 'iter_option':
        if it.done: return None
        it.done = True
        if discr_is(m, it.opt, 1): return it.opt.p[1][0]
        return None
    if k == 'iter_enumerate':
        v = iter_next(m, it.inner)
        if v is None: return None
        i = it.idx; it.idx += 1
        return Agg(None, [usize(i), v])
    if k == 'iter_rev':
        raise Unsupported('rev iterator')
    raise Unsupported('iterator kind ' + k)


def drain(m, it):
    out = []
    while True:
        v = iter_next(m, it)
        if v is None: return out
        out.append(v)


def get_iter(m, a):
    """argument of an Iterator method: value, or &mut to the iterator"""
    if isinstance(a, Ref):
        return m.load(a)
    return a


# ---------------------------------------------------------------------------------------------- dispatcher
def disambiguate(m, tr, method, cands, callee):
    if method == 'build':
        if tr == 'TimelineOrBuilder':
            return [c for c in cands if type_head(c.ret) == 'MergedTimeline']
        if tr == 'TimelineBuilder':
            return [c for c in cands if type_head(c.ret) != 'MergedTimeline']
    return cands


SCALARS = set(INT_BITS) | {'f32', 'f64', 'bool'}


def call_model(m, q, tr, method, args, callee):
    key = None
    if tr is not None:
        h = TRAIT_MODELS.get((tr, method))
        if h is not None:
            key = f'<_ as {tr}>::{method}'
            r = h(m, q, args, callee)
            if r is not NotImplemented:
                m.models_used.add(key); return r
    h = PATH_MODELS.get((q, method))
    if h is not None:
        r = h(m, q, args, callee)
        if r is not NotImplemented:
            m.models_used.add(f'{q}::{method}'); return r
    return NotImplemented


def _m(table, *keys):
    def deco(f):
        for k in keys:
            table[k] = f
        return f
    return deco


TRAIT_MODELS = {}
PATH_MODELS = {}


# ---- Clone / PartialEq / Default / Deref / conversions
@_m(TRAIT_MODELS, ('Clone', 'clone'))
def _clone(m, q, args, callee):
    v = m.load(args[0])
    if isinstance(v, (Sc, Ref, FnItem, VecObj, Opaque)):
        return clone_value(m, v)
    rt = m.rt_type(v)
    if rt in ('Option', 'Result', 'Ordering', 'Duration', 'EnumMap', 'PhantomData', 'Box', None) or str(rt).startswith(('{', '[')):
        return clone_value(m, v)
    try:
        f = m.resolve_mir(rt, 'Clone', 'clone', args, callee)
    except Unsupported as e:
        raise Unsupported(f'{e.msg} [rt={rt!r} v={v!r}]')
    if f is not None:
        return m.call_fn(f, args)
    return clone_value(m, v)


@_m(TRAIT_MODELS, ('PartialEq', 'eq'))
def _eq(m, q, args, callee):
    # <&T as PartialEq>::eq(&&a, &&b) etc.: strip reference levels down to &T
    a, b = args[0], args[1]
    while isinstance(a, Ref) and isinstance(m.load(a), Ref): a = m.load(a)
    while isinstance(b, Ref) and isinstance(m.load(b), Ref): b = m.load(b)
    va = deref_all(m, a)
    if isinstance(va, Sc) or m.rt_type(va) in ('Option', 'Ordering', 'Duration', None) or isinstance(va, VecObj):
        return Sc('bool', eq_values(m, a, b))
    if a is not args[0] or b is not args[1]:
        rt = m.rt_type(va)
        f = m.resolve_mir(rt, 'PartialEq', 'eq', [a, b], f'<{rt} as PartialEq>::eq')
        if f is not None:
            return m.call_fn(f, [a, b])
        return Sc('bool', eq_values(m, a, b))
    return NotImplemented


@_m(TRAIT_MODELS, ('PartialEq', 'ne'))
def _ne(m, q, args, callee):
    return Sc('bool', z3.Not(eq_values(m, args[0], args[1])))


@_m(TRAIT_MODELS, ('Default', 'default'))
def _default(m, q, args, callee):
    if q in INT_BITS: return mk_int(q, 0)
    if q == 'f32': return mk_f32(0.0)
    if q == 'f64': return mk_f64(0.0)
    if q == 'bool': return mk_bool(False)
    if q == 'Option': return none()
    if q == 'Vec': return VecObj([])
    if q == 'PhantomData': return Agg('PhantomData', [])
    if q == 'EnumMap':
        return enum_map_default(m, callee)
    h = getattr(m, 'default_hook', None)
    if h and (q in ('State', 'Value', 'Data') or 'Target' in str(q) or 'Target' in callee):
        r = h(m, q, callee)
        if r is not NotImplemented: return r
    return NotImplemented


@_m(TRAIT_MODELS, ('Deref', 'deref'), ('DerefMut', 'deref_mut'), ('AsRef', 'as_ref'), ('Borrow', 'borrow'))
def _deref(m, q, args, callee):
    v = m.load(args[0])
    if isinstance(v, VecObj): return args[0]
    if isinstance(v, Ref): return v                      # Box / & -> target
    if isinstance(v, Agg) and v.name == '[]': return args[0]
    return NotImplemented


@_m(TRAIT_MODELS, ('From', 'from'), ('Into', 'into'))
def _from(m, q, args, callee):
    a = args[0]
    if isinstance(a, Sc):
        if q in INT_BITS: return m.cast(a, q, 'IntToInt')
        if q in ('f32', 'f64'):
            return m.cast(a, q, 'FloatToFloat' if a.ty in ('f32', 'f64') else 'IntToFloat')
    if tr_is_identity(m, q, a): return a
    return NotImplemented


def tr_is_identity(m, q, a):
    return q is not None and m.rt_type(a) == q and q not in ('MergedTimeline', 'TimelineBuilderArguments')


# ---- Fn traits
@_m(TRAIT_MODELS, ('Fn', 'call'), ('FnMut', 'call_mut'), ('FnOnce', 'call_once'))
def _fncall(m, q, args, callee):
    tup = args[1]
    return m.call_value(args[0], list(tup.f))


# ---- Try
@_m(TRAIT_MODELS, ('Try', 'branch'))
def _branch(m, q, args, callee):
    o = args[0]
    if o.name == 'Option':
        if discr_is(m, o, 1):
            return En('ControlFlow', 0, {0: [o.p[1][0]]})
        return En('ControlFlow', 1, {1: [none()]})
    if o.name == 'Result':
        if discr_is(m, o, 0):
            return En('ControlFlow', 0, {0: [o.p[0][0]]})
        return En('ControlFlow', 1, {1: [En('Result', 1, {1: [o.p[1][0]]})]})
    raise Unsupported('Try::branch on ' + o.name)


@_m(TRAIT_MODELS, ('FromResidual', 'from_residual'))
def _from_residual(m, q, args, callee):
    r = args[0]
    if r.name == 'Option': return none()
    return r


# ---- IntoIterator / Iterator
@_m(TRAIT_MODELS, ('IntoIterator', 'into_iter'))
def _into_iter(m, q, args, callee):
    return make_iter(m, args[0])


@_m(TRAIT_MODELS, ('Iterator', 'next'))
def _next(m, q, args, callee):
    it = get_iter(m, args[0])
    v = iter_next(m, it)
    return none() if v is None else some(v)


@_m(TRAIT_MODELS, ('Iterator', 'map'))
def _map(m, q, args, callee):
    return Opaque('iter_map', inner=get_iter(m, args[0]), f=args[1])


@_m(TRAIT_MODELS, ('Iterator', 'cloned'), ('Iterator', 'copied'))
def _cloned(m, q, args, callee):
    return Opaque('iter_cloned', inner=get_iter(m, args[0]))


@_m(TRAIT_MODELS, ('Iterator', 'enumerate'))
def _enumerate(m, q, args, callee):
    return Opaque('iter_enumerate', inner=get_iter(m, args[0]), idx=0)


@_m(TRAIT_MODELS, ('Iterator', 'collect'), ('FromIterator', 'from_iter'))
def _collect(m, q, args, callee):
    it = make_iter(m, args[0]) if not (isinstance(args[0], Opaque)) else args[0]
    return VecObj(drain(m, it))


@_m(TRAIT_MODELS, ('Iterator', 'reduce'))
def _reduce(m, q, args, callee):
    items = drain(m, get_iter(m, args[0]))
    if not items: return none()
    acc = items[0]
    fref = m.alloc(args[1]) if not isinstance(args[1], Ref) else args[1]
    for x in items[1:]:
        acc = m.call_value(fref, [acc, x])
    return some(acc)


def _minmax_by(m, args, is_max, cmpf=None):
    items = drain(m, get_iter(m, args[0]))
    if not items: return none()
    acc = items[0]
    fref = None
    if cmpf is None:
        fref = m.alloc(args[1]) if not isinstance(args[1], Ref) else args[1]
    for x in items[1:]:
        ra, rx = m.alloc(acc), m.alloc(x)
        o = m.call_value(fref, [ra, rx]) if cmpf is None else cmpf(ra, rx)
        if isinstance(acc, Sc) and isinstance(x, Sc) and not isinstance(o.d, int) and d_val(o.d) is None:
            # scalar items and a symbolic comparison result: select with ite instead of forking
            g = o.d == z3.BitVecVal(1, o.d.size())
            acc = Sc(acc.ty, z3.If(g, acc.t, x.t) if is_max else z3.If(g, x.t, acc.t))
            continue
        greater = ordering_is(m, o, 1)
        if is_max:
            acc = acc if greater else x          # std: max_by keeps the last maximum
        else:
            acc = x if greater else acc          # std: min_by keeps the first minimum
    return some(acc)


@_m(TRAIT_MODELS, ('Iterator', 'max_by'))
def _max_by(m, q, args, callee):
    return _minmax_by(m, args, True)


@_m(TRAIT_MODELS, ('Iterator', 'min_by'))
def _min_by(m, q, args, callee):
    return _minmax_by(m, args, False)


@_m(TRAIT_MODELS, ('Iterator', 'max'), ('Iterator', 'min'))
def _max(m, q, args, callee):
    def cmpf(ra, rb):
        return m.do_call('<_ as Ord>::cmp', [ra, rb], None)
    return _minmax_by(m, args, callee.endswith('max'), cmpf)


# ---- Ord / PartialOrd on scalars
@_m(TRAIT_MODELS, ('Ord', 'cmp'))
def _cmp(m, q, args, callee):
    a = deref_all(m, args[0]); b = deref_all(m, args[1])
    if isinstance(a, Sc) and a.ty in INT_BITS:
        return m.binop('Cmp', a, b)
    if isinstance(a, (Agg, En)):
        rt = m.rt_type(a)
        f = m.resolve_mir(rt, 'Ord', 'cmp', args, callee)
        if f is not None: return m.call_fn(f, args)
    return NotImplemented


@_m(TRAIT_MODELS, ('Ord', 'max'), ('Ord', 'min'))
def _ordmax(m, q, args, callee):
    a, b = args
    if isinstance(a, Sc) and a.ty in INT_BITS:
        sg = is_signed(a.ty)
        ge = (a.t >= b.t) if sg else z3.UGE(a.t, b.t)
        if callee.endswith('max'):
            return Sc(a.ty, z3.If(ge, a.t, b.t) if False else z3.If((b.t >= a.t) if sg else z3.UGE(b.t, a.t), b.t, a.t))
        return Sc(a.ty, z3.If((a.t <= b.t) if sg else z3.ULE(a.t, b.t), a.t, b.t))
    return NotImplemented


@_m(TRAIT_MODELS, ('PartialOrd', 'partial_cmp'))
def _partial_cmp(m, q, args, callee):
    a = deref_all(m, args[0]); b = deref_all(m, args[1])
    if isinstance(a, Sc) and a.ty in ('f32', 'f64'):
        x, y = a.t, b.t
        d = z3.If(z3.fpLT(x, y), z3.BitVecVal(-1, 8), z3.If(z3.fpEQ(x, y), z3.BitVecVal(0, 8), z3.BitVecVal(1, 8)))
        isnan = z3.Or(z3.fpIsNaN(x), z3.fpIsNaN(y))
        return En('Option', z3.If(isnan, z3.BitVecVal(0, 64), z3.BitVecVal(1, 64)), {0: [], 1: [ORD(d)]})
    if isinstance(a, Sc) and a.ty in INT_BITS:
        return some(m.binop('Cmp', a, b))
    return NotImplemented


@_m(TRAIT_MODELS, ('PartialOrd', 'lt'), ('PartialOrd', 'le'), ('PartialOrd', 'gt'), ('PartialOrd', 'ge'))
def _plt(m, q, args, callee):
    a = deref_all(m, args[0]); b = deref_all(m, args[1])
    op = {'lt': 'Lt', 'le': 'Le', 'gt': 'Gt', 'ge': 'Ge'}[callee.rsplit('::', 1)[1]]
    if isinstance(a, Sc): return m.binop(op, a, b)
    return NotImplemented


# ---- arithmetic operator traits on scalars (generic code such as lyon_geom's Scalar)
def _arith(op):
    def h(m, q, args, callee):
        a, b = deref_all(m, args[0]), deref_all(m, args[1])
        if isinstance(a, Sc) and isinstance(b, Sc):
            return m.binop(op, a, b)
        return NotImplemented
    return h


for _t, _n, _o in (('Add', 'add', 'Add'), ('Sub', 'sub', 'Sub'), ('Mul', 'mul', 'Mul'), ('Div', 'div', 'Div'), ('Rem', 'rem', 'Rem')):
    TRAIT_MODELS[(_t, _n)] = _arith(_o)


@_m(TRAIT_MODELS, ('Neg', 'neg'))
def _neg(m, q, args, callee):
    a = deref_all(m, args[0])
    if isinstance(a, Sc): return m.unop('Neg', a)
    return NotImplemented


@_m(TRAIT_MODELS, ('AddAssign', 'add_assign'))
def _add_assign(m, q, args, callee):
    cur = m.load(args[0])
    if isinstance(cur, Agg) and cur.name == 'Duration':
        a, b = cur.f[0].t, dur_nanos(m, args[1])
        s = a + b
        if m.branch(z3.UGT(s, z3.BitVecVal(DUR_MAX, 128))):
            raise Panic('overflow when adding durations')
        m.store(args[0], mk_duration(s)); return UNIT
    if isinstance(cur, Sc):
        m.store(args[0], m.binop('Add', cur, deref_all(m, args[1]))); return UNIT
    return NotImplemented


# ---- Index
@_m(TRAIT_MODELS, ('Index', 'index'), ('IndexMut', 'index_mut'))
def _index(m, q, args, callee):
    v = m.load(args[0])
    if isinstance(v, Agg) and v.name == 'EnumMap':
        key = args[1]
        k = deref_all(m, key)
        n = len(v.f[0].items)
        if isinstance(k.d, int): i = k.d
        else:
            c = concrete(k.d)
            i = c if c is not None else m.choose([k.d == z3.BitVecVal(j, k.d.size()) for j in range(n)])
        return Ref(args[0].c, args[0].k, args[0].path + (('f', 0), ('i', i)))
    if isinstance(v, VecObj) or (isinstance(v, Agg) and v.name == '[]'):
        items, ref = seq_of(m, args[0])
        idx = args[1]
        if isinstance(idx, Sc):
            c = concrete(idx.t)
            if c is None:
                i = m.choose([idx.t == z3.BitVecVal(j, 64) for j in range(len(items))] + [z3.UGE(idx.t, z3.BitVecVal(len(items), 64))])
            else:
                i = c
            if i >= len(items): raise Panic('index out of bounds')
            return elem_ref(ref, i)
    return NotImplemented


# ---- FromPrimitive (num-traits)
@_m(TRAIT_MODELS, ('FromPrimitive', 'from_f32'))
def _from_f32(m, q, args, callee):
    x = args[0].t
    ty = q
    if ty not in INT_BITS: return NotImplemented
    bits = INT_BITS[ty]; sg = is_signed(ty)
    lo = -(1 << (bits - 1)) if sg else 0
    hi1 = (1 << (bits - 1)) if sg else (1 << bits)          # MAX + 1, a power of two: exact in f32
    def f(v): return z3.FPVal(float(v), F32)
    # num-traits float_to_int: MIN - 1 < x < MAX + 1 (real comparison), then truncate
    if abs(lo - 1) < (1 << 24):
        lo_ok = z3.fpGT(x, f(lo - 1))
    else:
        lo_ok = z3.fpGEQ(x, f(lo))
    ok = z3.And(lo_ok, z3.fpLT(x, f(hi1)))
    conv = z3.fpToSBV(RTZ, x, z3.BitVecSort(bits)) if sg else z3.fpToUBV(RTZ, x, z3.BitVecSort(bits))
    return En('Option', z3.If(ok, z3.BitVecVal(1, 64), z3.BitVecVal(0, 64)), {0: [], 1: [Sc(ty, conv)]})


# ---- Option
def _opt(m, a):
    return m.load(a) if isinstance(a, Ref) else a


@_m(PATH_MODELS, ('Option', 'is_some'))
def _is_some(m, q, args, callee):
    o = _opt(m, args[0])
    return Sc('bool', z3.BoolVal(o.d == 1) if isinstance(o.d, int) else o.d == z3.BitVecVal(1, o.d.size()))


@_m(PATH_MODELS, ('Option', 'is_none'))
def _is_none(m, q, args, callee):
    o = _opt(m, args[0])
    return Sc('bool', z3.BoolVal(o.d == 0) if isinstance(o.d, int) else o.d == z3.BitVecVal(0, o.d.size()))


@_m(PATH_MODELS, ('Option', 'as_ref'), ('Option', 'as_mut'))
def _as_ref(m, q, args, callee):
    o = m.load(args[0])
    p = {0: []}
    if 1 in o.p:
        p[1] = [opt_payload_ref(args[0])]
    return En('Option', o.d, p)


@_m(PATH_MODELS, ('Option', 'map'))
def _opt_map(m, q, args, callee):
    o = args[0]
    if discr_is(m, o, 1):
        return some(m.call_value(args[1], [o.p[1][0]]))
    return none()


@_m(PATH_MODELS, ('Option', 'unwrap'), ('Option', 'expect'))
def _unwrap(m, q, args, callee):
    o = args[0]
    if discr_is(m, o, 1):
        return o.p[1][0]
    raise Panic('called `Option::unwrap()`/expect on a `None` value')


@_m(PATH_MODELS, ('Option', 'unwrap_or'))
def _unwrap_or(m, q, args, callee):
    o = args[0]
    c = d_val(o.d)
    if c is None and isinstance(args[1], Sc) and isinstance(o.p.get(1, [None])[0], Sc):
        return Sc(args[1].ty, z3.If(o.d == z3.BitVecVal(1, o.d.size()), o.p[1][0].t, args[1].t))
    inner = o.p.get(1, [None])[0]
    if c is None and isinstance(args[1], En) and isinstance(inner, En) and inner.name == args[1].name and not any(inner.p.values()) and not any(args[1].p.values()):
        # field-less enums (Ordering): merge instead of forking
        w = 8
        def dv(e):
            return z3.BitVecVal(e.d, w) if isinstance(e.d, int) else (e.d if e.d.size() == w else z3.Extract(w - 1, 0, e.d))
        return En(inner.name, z3.If(o.d == z3.BitVecVal(1, o.d.size()), dv(inner), dv(args[1])))
    if discr_is(m, o, 1):
        return o.p[1][0]
    return args[1]


@_m(PATH_MODELS, ('Option', 'unwrap_or_default'))
def _unwrap_or_default(m, q, args, callee):
    o = args[0]
    if discr_is(m, o, 1):
        return o.p[1][0]
    raise Unsupported('unwrap_or_default on None')


@_m(PATH_MODELS, ('Option', 'flatten'))
def _flatten(m, q, args, callee):
    o = args[0]
    if discr_is(m, o, 1):
        return o.p[1][0]
    return none()


@_m(PATH_MODELS, ('Option', 'is_some_and'))
def _is_some_and(m, q, args, callee):
    o = args[0]
    if discr_is(m, o, 1):
        return m.call_value(args[1], [o.p[1][0]])
    return mk_bool(False)


@_m(PATH_MODELS, ('bool', 'then_some'))
def _then_some(m, q, args, callee):
    c = args[0].t if not z3.is_bv(args[0].t) else args[0].t != 0
    if m.branch(c):
        return some(args[1])
    return none()


@_m(PATH_MODELS, ('bool', 'then'))
def _then(m, q, args, callee):
    c = args[0].t if not z3.is_bv(args[0].t) else args[0].t != 0
    if m.branch(c):
        return some(m.call_value(args[1], []))
    return none()


@_m(PATH_MODELS, ('Option', 'cloned'), ('Option', 'copied'))
def _opt_cloned(m, q, args, callee):
    o = args[0]
    if discr_is(m, o, 1):
        return some(clone_value(m, m.load(o.p[1][0])))
    return none()


@_m(PATH_MODELS, ('Option', 'take'))
def _take(m, q, args, callee):
    o = m.load(args[0])
    m.store(args[0], none())
    return o


@_m(PATH_MODELS, ('Result', 'unwrap'), ('Result', 'expect'))
def _res_unwrap(m, q, args, callee):
    o = args[0]
    if discr_is(m, o, 0):
        return o.p[0][0]
    raise Panic('called `Result::unwrap()` on an `Err` value')


# ---- Vec / slices
@_m(PATH_MODELS, ('Vec', 'new'))
def _vec_new(m, q, args, callee):
    return VecObj([])


@_m(PATH_MODELS, ('Vec', 'with_capacity'))
def _vec_cap(m, q, args, callee):
    return VecObj([])


@_m(PATH_MODELS, ('Vec', 'push'))
def _vec_push(m, q, args, callee):
    m.load(args[0]).items.append(args[1]); return UNIT


@_m(PATH_MODELS, ('Vec', 'dedup'))
def _vec_dedup(m, q, args, callee):
    """std: removes consecutive elements that compare equal (PartialEq; IEEE == for floats), keeping the first of each run"""
    v = m.load(args[0])
    out = []
    for it in v.items:
        if out:
            a, b = out[-1], it
            if not (isinstance(a, Sc) and isinstance(b, Sc)):
                raise Unsupported('Vec::dedup on non-scalar elements')
            same = z3.fpEQ(a.t, b.t) if a.ty in ('f32', 'f64') else (a.t == b.t)
            if m.branch(same):
                continue
        out.append(it)
    v.items[:] = out
    return UNIT


@_m(PATH_MODELS, ('Vec', 'len'), ('slice', 'len'), ('[T]', 'len'))
def _len(m, q, args, callee):
    return usize(len(seq_of(m, args[0])[0]))


@_m(PATH_MODELS, ('Vec', 'is_empty'), ('slice', 'is_empty'))
def _is_empty(m, q, args, callee):
    return mk_bool(len(seq_of(m, args[0])[0]) == 0)


@_m(PATH_MODELS, ('Vec', 'as_slice'), ('Vec', 'as_mut_slice'))
def _as_slice(m, q, args, callee):
    return args[0]


@_m(PATH_MODELS, ('slice', 'iter'), ('slice', 'iter_mut'), ('Vec', 'iter'))
def _iter(m, q, args, callee):
    seq_of(m, args[0])
    r = args[0]
    while isinstance(m.load(r), Ref): r = m.load(r)
    return Opaque('iter_slice', seq=r, idx=0)


@_m(PATH_MODELS, ('slice', 'first'), ('slice', 'first_mut'))
def _first(m, q, args, callee):
    items, ref = seq_of(m, args[0])
    return some(elem_ref(ref, 0)) if items else none()


@_m(PATH_MODELS, ('slice', 'last'), ('slice', 'last_mut'))
def _last(m, q, args, callee):
    items, ref = seq_of(m, args[0])
    return some(elem_ref(ref, len(items) - 1)) if items else none()


@_m(PATH_MODELS, ('slice', 'get'), ('slice', 'get_mut'))
def _get(m, q, args, callee):
    items, ref = seq_of(m, args[0])
    idx = args[1]
    if not isinstance(idx, Sc): raise Unsupported('slice::get with range')
    n = len(items)
    c = concrete(idx.t)
    if c is not None:
        return some(elem_ref(ref, c)) if c < n else none()
    i = m.choose([idx.t == z3.BitVecVal(j, 64) for j in range(n)] + [z3.UGE(idx.t, z3.BitVecVal(n, 64))])
    return some(elem_ref(ref, i)) if i < n else none()


@_m(PATH_MODELS, ('slice', 'binary_search_by'))
def _binary_search_by(m, q, args, callee):
    """the std algorithm of the toolchain in this image (branchless halving, then one final compare)"""
    items, ref = seq_of(m, args[0])
    f = args[1]
    fref = m.alloc(f) if not isinstance(f, Ref) else f
    size = len(items)
    if size == 0:
        return En('Result', 1, {1: [usize(0)]})
    base = 0
    while size > 1:
        half = size // 2; mid = base + half
        o = m.call_value(fref, [elem_ref(ref, mid)])
        if not ordering_is(m, o, 1):       # cmp != Greater -> base = mid
            base = mid
        size -= half
    o = m.call_value(fref, [elem_ref(ref, base)])
    if ordering_is(m, o, 0):
        return En('Result', 0, {0: [usize(base)]})
    less = ordering_is(m, o, -1)
    return En('Result', 1, {1: [usize(base + (1 if less else 0))]})


@_m(PATH_MODELS, ('slice', 'sort_by'))
def _sort_by(m, q, args, callee):
    """stable sort: modelled as a stable insertion sort (any stable sort gives the same permutation when the
    comparator is a strict weak order, which f32::total_cmp is)"""
    items, ref = seq_of(m, args[0])
    f = args[1]
    fref = m.alloc(f) if not isinstance(f, Ref) else f
    out = []
    for x in list(items):
        pos = len(out)
        # insert after the last element that is <= x
        while pos > 0:
            o = m.call_value(fref, [m.alloc(out[pos - 1]), m.alloc(x)])
            if ordering_is(m, o, 1):        # out[pos-1] > x  -> move left
                pos -= 1
            else:
                break
        out.insert(pos, x)
    items[:] = out
    return UNIT


# ---- f32 helpers
@_m(PATH_MODELS, ('f32', 'clamp'))
def _clamp(m, q, args, callee):
    x, lo, hi = (a.t for a in args)
    bad = z3.Not(z3.fpLEQ(lo, hi))
    if m.branch(bad):
        raise Panic('f32::clamp: min > max or NaN bound')
    return Sc('f32', z3.If(z3.fpLT(x, lo), lo, z3.If(z3.fpGT(x, hi), hi, x)))


@_m(PATH_MODELS, ('f32', 'total_cmp'), ('f64', 'total_cmp'))
def _total_cmp(m, q, args, callee):
    a = deref_all(m, args[0]); b = deref_all(m, args[1])
    return ORD(total_cmp_term(a.t, b.t))


@_m(PATH_MODELS, ('f32', 'round'), ('f64', 'round'))
def _round(m, q, args, callee):
    return Sc(args[0].ty, z3.fpRoundToIntegral(RNA, args[0].t))


@_m(PATH_MODELS, ('f32', 'floor'))
def _floor(m, q, args, callee):
    return Sc(args[0].ty, z3.fpRoundToIntegral(z3.RTN(), args[0].t))


@_m(PATH_MODELS, ('f32', 'abs'))
def _abs(m, q, args, callee):
    return Sc(args[0].ty, z3.fpAbs(args[0].t))


@_m(PATH_MODELS, ('f32', 'max'), ('f32', 'min'))
def _fmax(m, q, args, callee):
    x, y = args[0].t, args[1].t
    if callee.endswith('max'):
        r = z3.If(z3.fpIsNaN(x), y, z3.If(z3.fpIsNaN(y), x, z3.If(z3.fpGT(x, y), x, y)))
    else:
        r = z3.If(z3.fpIsNaN(x), y, z3.If(z3.fpIsNaN(y), x, z3.If(z3.fpLT(x, y), x, y)))
    return Sc('f32', r)


@_m(PATH_MODELS, ('f32', 'is_nan'))
def _is_nan(m, q, args, callee):
    return Sc('bool', z3.fpIsNaN(args[0].t))


@_m(PATH_MODELS, ('f32', 'is_finite'))
def _is_finite(m, q, args, callee):
    return Sc('bool', z3.And(z3.Not(z3.fpIsNaN(args[0].t)), z3.Not(z3.fpIsInf(args[0].t))))


# ---- Duration
@_m(PATH_MODELS, ('Duration', 'from_secs_f32'))
def _from_secs_f32(m, q, args, callee):
    return duration_from_secs_f32(m, args[0].t)


@_m(PATH_MODELS, ('Duration', 'try_from_secs_f32'))
def _try_from_secs_f32(m, q, args, callee):
    try:
        return En('Result', 0, {0: [duration_from_secs_f32(m, args[0].t)]})
    except Panic:
        return En('Result', 1, {1: [Agg('TryFromFloatSecsError', [])]})


@_m(PATH_MODELS, ('Duration', 'as_secs_f32'))
def _as_secs_f32(m, q, args, callee):
    return duration_as_secs_f32(m, dur_nanos(m, args[0]))


# ---- Box / dyn-clone / lazy_static
@_m(PATH_MODELS, ('Box', 'new'))
def _box_new(m, q, args, callee):
    return m.alloc(args[0])


@_m(PATH_MODELS, (None, 'clone_box'), ('dyn_clone', 'clone_box'))
def _clone_box(m, q, args, callee):
    # clone_box<T: ?Sized + DynClone>(t: &T) -> Box<T>.  For T = Box<dyn Trait> the clone of T is a new box of the cloned object
    v = m.load(args[0]) if isinstance(args[0], Ref) else args[0]
    if isinstance(v, Ref):
        return m.alloc(m.alloc(clone_value(m, deref_all(m, v))))
    return m.alloc(clone_value(m, v))


@_m(TRAIT_MODELS, ('Drop', 'drop'))
def _drop(m, q, args, callee):
    return UNIT


@_m(PATH_MODELS, ('Lazy', 'get'))
def _lazy_get(m, q, args, callee):
    fi = args[1]
    key = fi.name if isinstance(fi, FnItem) else repr(fi)
    if key not in m.lazy_cache:
        m.lazy_cache[key] = Cell(m.call_value(fi, []))
    return Ref(m.lazy_cache[key], 0)


# ---- enum-map
def enum_map_default(m, callee):
    h = getattr(m, 'enum_map_len', None)
    if h is None:
        raise Unsupported('EnumMap::default needs Machine.enum_map_len (number of keys)')
    return Agg('EnumMap', [VecObj([none() for _ in range(h)])])


@_m(PATH_MODELS, ('EnumMap', 'default'))
def _enum_map_default(m, q, args, callee):
    return enum_map_default(m, callee)


@_m(PATH_MODELS, ('Point2D', 'new'))
def _point_new(m, q, args, callee):
    return Agg('Point2D', [args[0], args[1], Agg('PhantomData', [])])


# ---- mem / misc
@_m(PATH_MODELS, ('mem', 'replace'))
def _replace(m, q, args, callee):
    old = m.load(args[0]); m.store(args[0], args[1]); return old


@_m(PATH_MODELS, ('mem', 'swap'))
def _swap(m, q, args, callee):
    a, b = m.load(args[0]), m.load(args[1]); m.store(args[0], b); m.store(args[1], a); return UNIT


@_m(PATH_MODELS, ('mem', 'take'))
def _mem_take(m, q, args, callee):
    old = m.load(args[0])
    if isinstance(old, VecObj): m.store(args[0], VecObj([])); return old
    raise Unsupported('mem::take')


# ---------------------------------------------------------------------------------------------- extra std models
# (not used by the pinned tree; present so that plausible source changes stay within the executor's reach)
def _opt_d(o):
    return o.d if not isinstance(o.d, int) else z3.BitVecVal(o.d, 64)


@_m(PATH_MODELS, ('Option', 'or_else'))
def _or_else(m, q, args, callee):
    o = args[0]
    if discr_is(m, o, 1): return o
    return m.call_value(args[1], [])


@_m(PATH_MODELS, ('Option', 'or'))
def _or(m, q, args, callee):
    o = args[0]
    if discr_is(m, o, 1): return o
    return args[1]


@_m(PATH_MODELS, ('Option', 'and'))
def _opt_and(m, q, args, callee):
    o = args[0]
    if discr_is(m, o, 1): return args[1]
    return none()


@_m(PATH_MODELS, ('Option', 'xor'))
def _opt_xor(m, q, args, callee):
    a, b = args[0], args[1]
    sa, sb = discr_is(m, a, 1), discr_is(m, b, 1)
    if sa and not sb: return a
    if sb and not sa: return b
    return none()


@_m(PATH_MODELS, ('Option', 'zip'))
def _opt_zip(m, q, args, callee):
    a, b = args[0], args[1]
    if discr_is(m, a, 1) and discr_is(m, b, 1): return some(Agg(None, [a.p[1][0], b.p[1][0]]))
    return none()


@_m(PATH_MODELS, ('Option', 'ok_or'))
def _opt_ok_or(m, q, args, callee):
    o = args[0]
    if discr_is(m, o, 1): return En('Result', 0, {0: [o.p[1][0]]})
    return En('Result', 1, {1: [args[1]]})


@_m(PATH_MODELS, ('Option', 'and_then'))
def _and_then(m, q, args, callee):
    o = args[0]
    if discr_is(m, o, 1): return m.call_value(args[1], [o.p[1][0]])
    return none()


@_m(PATH_MODELS, ('Option', 'map_or'))
def _map_or(m, q, args, callee):
    o = args[0]
    if discr_is(m, o, 1): return m.call_value(args[2], [o.p[1][0]])
    return args[1]


@_m(PATH_MODELS, ('Option', 'map_or_else'))
def _map_or_else(m, q, args, callee):
    o = args[0]
    if discr_is(m, o, 1): return m.call_value(args[2], [o.p[1][0]])
    return m.call_value(args[1], [])


@_m(PATH_MODELS, ('Option', 'unwrap_or_else'))
def _unwrap_or_else(m, q, args, callee):
    o = args[0]
    if discr_is(m, o, 1): return o.p[1][0]
    return m.call_value(args[1], [])


@_m(PATH_MODELS, ('Option', 'filter'))
def _opt_filter(m, q, args, callee):
    o = args[0]
    if discr_is(m, o, 1):
        keep = m.call_value(args[1], [m.alloc(o.p[1][0])])
        return o if m.branch(keep.t) else none()
    return none()


@_m(PATH_MODELS, ('Option', 'is_none_or'))
def _is_none_or(m, q, args, callee):
    o = args[0]
    if discr_is(m, o, 1): return m.call_value(args[1], [o.p[1][0]])
    return mk_bool(True)


@_m(PATH_MODELS, ('Option', 'replace'), ('Option', 'insert'))
def _opt_replace(m, q, args, callee):
    old = m.load(args[0]); m.store(args[0], some(args[1]))
    if callee.endswith('insert'): return opt_payload_ref(args[0])
    return old


def _opt_cmp_terms(m, a, b):
    """(lt, eq) for Option<scalar> with None < Some(_)"""
    a = deref_all(m, a); b = deref_all(m, b)
    da, db = _opt_d(a), _opt_d(b)
    pa = a.p.get(1, [None])[0]; pb = b.p.get(1, [None])[0]
    if pa is not None and pb is not None and isinstance(pa, Sc) and isinstance(pb, Sc):
        if pa.ty in ('f32', 'f64'):
            ilt, ieq = z3.fpLT(pa.t, pb.t), z3.fpEQ(pa.t, pb.t)
        else:
            ilt, ieq = m.binop('Lt', pa, pb).t, pa.t == pb.t
    elif pa is None or pb is None:
        ilt, ieq = z3.BoolVal(False), z3.BoolVal(True)
    else:
        raise Unsupported('Option comparison of non-scalar payloads')
    both = z3.And(da == 1, db == 1)
    lt = z3.Or(z3.And(da == 0, db == 1), z3.And(both, ilt))
    eq = z3.Or(z3.And(da == 0, db == 0), z3.And(both, ieq))
    return lt, eq


def _opt_partial(op):
    def h(m, q, args, callee):
        a = deref_all(m, args[0])
        if not (isinstance(a, En) and a.name == 'Option'): return NotImplemented
        lt, eq = _opt_cmp_terms(m, args[0], args[1])
        gt = z3.And(z3.Not(lt), z3.Not(eq))
        # NaN payloads: all comparisons false except ne; valid configurations have none
        return Sc('bool', {'lt': lt, 'le': z3.Or(lt, eq), 'gt': gt, 'ge': z3.Or(gt, eq)}[op])
    return h


for _op in ('lt', 'le', 'gt', 'ge'):
    _prev = TRAIT_MODELS.get(('PartialOrd', _op))
    def _mk(op, prev):
        oh = _opt_partial(op)
        def h(m, q, args, callee):
            r = oh(m, q, args, callee)
            if r is not NotImplemented: return r
            return prev(m, q, args, callee) if prev else NotImplemented
        return h
    TRAIT_MODELS[('PartialOrd', _op)] = _mk(_op, _prev)


# ---- more iterator adaptors / consumers
@_m(TRAIT_MODELS, ('Iterator', 'any'), ('Iterator', 'all'))
def _any_all(m, q, args, callee):
    it = get_iter(m, args[0]); is_any = callee.endswith('any')
    f = args[1]; fref = m.alloc(f) if not isinstance(f, Ref) else f
    while True:
        v = iter_next(m, it)
        if v is None: return mk_bool(not is_any)
        r = m.call_value(fref, [v])
        if m.branch(r.t) == is_any: return mk_bool(is_any)


@_m(TRAIT_MODELS, ('Iterator', 'fold'))
def _fold(m, q, args, callee):
    acc = args[1]; f = args[2]; fref = m.alloc(f) if not isinstance(f, Ref) else f
    for v in drain(m, get_iter(m, args[0])):
        acc = m.call_value(fref, [acc, v])
    return acc


@_m(TRAIT_MODELS, ('Iterator', 'count'))
def _count(m, q, args, callee):
    return usize(len(drain(m, get_iter(m, args[0]))))


@_m(TRAIT_MODELS, ('Iterator', 'last'))
def _it_last(m, q, args, callee):
    xs = drain(m, get_iter(m, args[0]))
    return some(xs[-1]) if xs else none()


@_m(TRAIT_MODELS, ('Iterator', 'find'), ('Iterator', 'position'))
def _find(m, q, args, callee):
    it = get_iter(m, args[0]); f = args[1]; fref = m.alloc(f) if not isinstance(f, Ref) else f
    pos = callee.endswith('position'); i = 0
    while True:
        v = iter_next(m, it)
        if v is None: return none()
        r = m.call_value(fref, [v if pos else m.alloc(v)])
        if m.branch(r.t): return some(usize(i) if pos else v)
        i += 1


@_m(TRAIT_MODELS, ('Iterator', 'filter'))
def _it_filter(m, q, args, callee):
    f = args[1]; fref = m.alloc(f) if not isinstance(f, Ref) else f
    out = []
    for v in drain(m, get_iter(m, args[0])):
        if m.branch(m.call_value(fref, [m.alloc(v)]).t): out.append(v)
    return Opaque('iter_owned', items=out, idx=0)


@_m(TRAIT_MODELS, ('Iterator', 'rev'))
def _rev(m, q, args, callee):
    return Opaque('iter_owned', items=list(reversed(drain(m, get_iter(m, args[0])))), idx=0)


@_m(TRAIT_MODELS, ('Iterator', 'skip'), ('Iterator', 'take'))
def _skip_take(m, q, args, callee):
    xs = drain(m, get_iter(m, args[0])); n = concrete(args[1].t)
    if n is None: raise Unsupported('symbolic skip/take')
    return Opaque('iter_owned', items=(xs[n:] if callee.endswith('skip') else xs[:n]), idx=0)


@_m(TRAIT_MODELS, ('Iterator', 'zip'))
def _zip(m, q, args, callee):
    a = drain(m, get_iter(m, args[0])); b = drain(m, make_iter(m, args[1]))
    return Opaque('iter_owned', items=[Agg(None, [x, y]) for x, y in zip(a, b)], idx=0)


@_m(TRAIT_MODELS, ('Iterator', 'sum'))
def _sum(m, q, args, callee):
    xs = drain(m, get_iter(m, args[0]))
    if not xs: raise Unsupported('sum of empty iterator (type unknown)')
    acc = deref_all(m, xs[0])
    for x in xs[1:]: acc = m.binop('Add', acc, deref_all(m, x))
    return acc


@_m(TRAIT_MODELS, ('Iterator', 'for_each'))
def _for_each(m, q, args, callee):
    f = args[1]; fref = m.alloc(f) if not isinstance(f, Ref) else f
    for v in drain(m, get_iter(m, args[0])): m.call_value(fref, [v])
    return UNIT


@_m(PATH_MODELS, ('slice', 'contains'))
def _contains(m, q, args, callee):
    items, ref = seq_of(m, args[0])
    cs = [eq_values(m, x, args[1]) for x in items]
    return Sc('bool', z3.Or(cs) if cs else z3.BoolVal(False))


@_m(PATH_MODELS, ('Vec', 'clear'))
def _clear(m, q, args, callee):
    m.load(args[0]).items[:] = []; return UNIT


@_m(PATH_MODELS, ('Vec', 'pop'))
def _pop(m, q, args, callee):
    items = m.load(args[0]).items
    return some(items.pop()) if items else none()


@_m(PATH_MODELS, ('Vec', 'insert'))
def _vinsert(m, q, args, callee):
    i = concrete(args[1].t)
    if i is None: raise Unsupported('symbolic Vec::insert index')
    m.load(args[0]).items.insert(i, args[2]); return UNIT


@_m(PATH_MODELS, ('Vec', 'truncate'))
def _truncate(m, q, args, callee):
    n = concrete(args[1].t)
    if n is None: raise Unsupported('symbolic truncate')
    del m.load(args[0]).items[n:]; return UNIT


# ---- integer / float helpers
def _int_method(name):
    def h(m, q, args, callee):
        a = args[0]
        if not (isinstance(a, Sc) and a.ty in INT_BITS): return NotImplemented
        b = args[1] if len(args) > 1 else None
        ty = a.ty; bits = INT_BITS[ty]; sg = is_signed(ty)
        if name in ('wrapping_add', 'wrapping_sub', 'wrapping_mul'):
            return m.binop({'wrapping_add': 'Add', 'wrapping_sub': 'Sub', 'wrapping_mul': 'Mul'}[name], a, b)
        if name in ('checked_add', 'checked_sub', 'checked_mul', 'saturating_add', 'saturating_sub', 'overflowing_add', 'overflowing_sub'):
            op = {'add': 'AddWithOverflow', 'sub': 'SubWithOverflow', 'mul': 'MulWithOverflow'}[name.split('_')[1]]
            r = m.binop(op, a, b); val, ovf = r.f[0].t, r.f[1].t
            if name.startswith('checked'):
                return En('Option', z3.If(ovf, z3.BitVecVal(0, 64), z3.BitVecVal(1, 64)), {0: [], 1: [Sc(ty, val)]})
            if name.startswith('overflowing'): return r
            if sg:
                mx = z3.BitVecVal((1 << (bits - 1)) - 1, bits); mn = z3.BitVecVal(-(1 << (bits - 1)), bits)
                sat = z3.If(b.t < 0, mn, mx) if name.endswith('add') else z3.If(b.t < 0, mx, mn)
            else:
                sat = z3.BitVecVal((1 << bits) - 1, bits) if name.endswith('add') else z3.BitVecVal(0, bits)
            return Sc(ty, z3.If(ovf, sat, val))
        if name == 'abs': return Sc(ty, z3.If(a.t < 0, -a.t, a.t))
        if name == 'min': return Sc(ty, z3.If((a.t <= b.t) if sg else z3.ULE(a.t, b.t), a.t, b.t))
        if name == 'max': return Sc(ty, z3.If((a.t >= b.t) if sg else z3.UGE(a.t, b.t), a.t, b.t))
        return NotImplemented
    return h


for _t in INT_BITS:
    for _n in ('wrapping_add', 'wrapping_sub', 'wrapping_mul', 'checked_add', 'checked_sub', 'checked_mul', 'saturating_add', 'saturating_sub',
               'overflowing_add', 'overflowing_sub', 'abs', 'min', 'max'):
        PATH_MODELS[(_t, _n)] = _int_method(_n)


@_m(PATH_MODELS, ('f32', 'ceil'))
def _ceil(m, q, args, callee):
    return Sc('f32', z3.fpRoundToIntegral(z3.RTP(), args[0].t))


@_m(PATH_MODELS, ('f32', 'trunc'))
def _trunc(m, q, args, callee):
    return Sc('f32', z3.fpRoundToIntegral(RTZ, args[0].t))


@_m(PATH_MODELS, ('f32', 'fract'))
def _fract(m, q, args, callee):
    return Sc('f32', z3.fpSub(RNE, args[0].t, z3.fpRoundToIntegral(RTZ, args[0].t)))


@_m(PATH_MODELS, ('f32', 'mul_add'))
def _mul_add(m, q, args, callee):
    return Sc('f32', z3.fpFMA(RNE, args[0].t, args[1].t, args[2].t))


@_m(PATH_MODELS, ('f32', 'signum'))
def _signum(m, q, args, callee):
    x = args[0].t
    return Sc('f32', z3.If(z3.fpIsNaN(x), x, z3.If(z3.fpIsNegative(x), z3.FPVal(-1.0, F32), z3.FPVal(1.0, F32))))


@_m(PATH_MODELS, ('f32', 'rem_euclid'))
def _rem_euclid(m, q, args, callee):
    r = m.fmod(args[0].t, args[1].t)
    return Sc('f32', z3.If(z3.fpLT(r, z3.FPVal(0.0, F32)), z3.fpAdd(RNE, r, z3.fpAbs(args[1].t)), r))


@_m(PATH_MODELS, ('f32', 'to_bits'))
def _to_bits(m, q, args, callee):
    return m.cast(args[0], 'u32', 'Transmute')


@_m(PATH_MODELS, ('f32', 'from_bits'))
def _from_bits(m, q, args, callee):
    return Sc('f32', z3.fpBVToFP(args[0].t, F32))


@_m(PATH_MODELS, ('f32', 'copysign'))
def _copysign(m, q, args, callee):
    x, y = args[0].t, args[1].t
    return Sc('f32', z3.If(z3.fpIsNegative(y), z3.fpNeg(z3.fpAbs(x)), z3.fpAbs(x)))


@_m(PATH_MODELS, ('f32', 'recip'))
def _recip(m, q, args, callee):
    return Sc('f32', z3.fpDiv(RNE, z3.FPVal(1.0, F32), args[0].t))


def _is_dur(v):
    return isinstance(v, Agg) and v.name == 'Duration'


def _dur_cmp_wrap(op, prev):
    def h(m, q, args, callee):
        a = deref_all(m, args[0])
        if _is_dur(a):
            x, y = a.f[0].t, deref_all(m, args[1]).f[0].t
            return Sc('bool', {'lt': z3.ULT(x, y), 'le': z3.ULE(x, y), 'gt': z3.UGT(x, y), 'ge': z3.UGE(x, y)}[op])
        return prev(m, q, args, callee) if prev else NotImplemented
    return h


for _op in ('lt', 'le', 'gt', 'ge'):
    TRAIT_MODELS[('PartialOrd', _op)] = _dur_cmp_wrap(_op, TRAIT_MODELS.get(('PartialOrd', _op)))


def _dur_ord_wrap(prev, partial):
    def h(m, q, args, callee):
        a = deref_all(m, args[0])
        if _is_dur(a):
            x, y = a.f[0].t, deref_all(m, args[1]).f[0].t
            o = ORD(z3.If(z3.ULT(x, y), z3.BitVecVal(-1, 8), z3.If(x == y, z3.BitVecVal(0, 8), z3.BitVecVal(1, 8))))
            return some(o) if partial else o
        return prev(m, q, args, callee) if prev else NotImplemented
    return h


TRAIT_MODELS[('Ord', 'cmp')] = _dur_ord_wrap(TRAIT_MODELS.get(('Ord', 'cmp')), False)
TRAIT_MODELS[('PartialOrd', 'partial_cmp')] = _dur_ord_wrap(TRAIT_MODELS.get(('PartialOrd', 'partial_cmp')), True)


def _dur_minmax_wrap(prev):
    def h(m, q, args, callee):
        a = deref_all(m, args[0])
        if _is_dur(a):
            x, y = a.f[0].t, deref_all(m, args[1]).f[0].t
            if callee.endswith('max'): return mk_duration(z3.If(z3.UGE(y, x), y, x))
            return mk_duration(z3.If(z3.ULE(x, y), x, y))
        return prev(m, q, args, callee) if prev else NotImplemented
    return h


for _k in (('Ord', 'max'), ('Ord', 'min')):
    TRAIT_MODELS[_k] = _dur_minmax_wrap(TRAIT_MODELS.get(_k))


@_m(PATH_MODELS, ('Duration', 'from_secs'), ('Duration', 'from_millis'), ('Duration', 'from_micros'), ('Duration', 'from_nanos'), ('Duration', 'new'))
def _dur_from_int(m, q, args, callee):
    name = callee.rsplit('::', 1)[1]
    x = z3.ZeroExt(128 - args[0].t.size(), args[0].t)
    if name == 'new':
        n = x * z3.BitVecVal(10 ** 9, 128) + z3.ZeroExt(128 - args[1].t.size(), args[1].t)
        if m.branch(z3.UGT(n, z3.BitVecVal(DUR_MAX, 128))): raise Panic('overflow in Duration::new')
        return mk_duration(n)
    return mk_duration(x * z3.BitVecVal({'from_secs': 10 ** 9, 'from_millis': 10 ** 6, 'from_micros': 10 ** 3, 'from_nanos': 1}[name], 128))


@_m(PATH_MODELS, ('Duration', 'as_nanos'), ('Duration', 'as_micros'), ('Duration', 'as_millis'), ('Duration', 'as_secs'), ('Duration', 'subsec_nanos'))
def _dur_as_int(m, q, args, callee):
    name = callee.rsplit('::', 1)[1]
    n = dur_nanos(m, args[0])
    if name == 'subsec_nanos':
        return Sc('u32', z3.Extract(31, 0, z3.URem(n, z3.BitVecVal(10 ** 9, 128))))
    d = z3.UDiv(n, z3.BitVecVal({'as_nanos': 1, 'as_micros': 10 ** 3, 'as_millis': 10 ** 6, 'as_secs': 10 ** 9}[name], 128))
    return Sc('u64', z3.Extract(63, 0, d)) if name == 'as_secs' else Sc('u128', d)


@_m(PATH_MODELS, ('Duration', 'checked_sub'))
def _dur_checked_sub(m, q, args, callee):
    a, b = dur_nanos(m, args[0]), dur_nanos(m, args[1])
    return En('Option', z3.If(z3.ULT(a, b), z3.BitVecVal(0, 64), z3.BitVecVal(1, 64)), {0: [], 1: [mk_duration(a - b)]})


@_m(PATH_MODELS, ('Duration', 'is_zero'))
def _dur_is_zero(m, q, args, callee):
    return Sc('bool', dur_nanos(m, args[0]) == 0)


@_m(PATH_MODELS, ('Duration', 'saturating_sub'), ('Duration', 'checked_add'), ('Duration', 'saturating_add'))
def _dur_misc(m, q, args, callee):
    a, b = dur_nanos(m, args[0]), dur_nanos(m, args[1])
    if callee.endswith('saturating_sub'): return mk_duration(z3.If(z3.ULT(a, b), z3.BitVecVal(0, 128), a - b))
    s = a + b; ovf = z3.UGT(s, z3.BitVecVal(DUR_MAX, 128))
    if callee.endswith('checked_add'):
        return En('Option', z3.If(ovf, z3.BitVecVal(0, 64), z3.BitVecVal(1, 64)), {0: [], 1: [mk_duration(s)]})
    # fork rather than ite: when saturation is infeasible under the path condition the result is the plain sum
    if m.branch(ovf):
        return mk_duration(z3.BitVecVal(DUR_MAX, 128))
    return mk_duration(s)


@_m(TRAIT_MODELS, ('Add', 'add'), ('Sub', 'sub'))
def _dur_addsub(m, q, args, callee):
    a, b = deref_all(m, args[0]), deref_all(m, args[1])
    if isinstance(a, Agg) and a.name == 'Duration':
        x, y = a.f[0].t, b.f[0].t
        if callee.endswith('add'):
            s = x + y
            if m.branch(z3.UGT(s, z3.BitVecVal(DUR_MAX, 128))): raise Panic('overflow when adding durations')
            return mk_duration(s)
        if m.branch(z3.ULT(x, y)): raise Panic('overflow when subtracting durations')
        return mk_duration(x - y)
    if isinstance(a, Sc) and isinstance(b, Sc):
        return m.binop('Add' if callee.endswith('add') else 'Sub', a, b)
    return NotImplemented


@_m(PATH_MODELS, ('slice', 'chunks'), ('slice', 'windows'), ('slice', 'chunks_exact'))
def _chunks(m, q, args, callee):
    """read-only views: each chunk / window is a fresh sequence holding the same element values"""
    items, ref = seq_of(m, args[0])
    n = concrete(args[1].t)
    if n is None or n == 0: raise Unsupported('symbolic / zero chunk size')
    out = []
    if callee.endswith('windows'):
        for i in range(0, len(items) - n + 1):
            out.append(m.alloc(VecObj(list(items[i:i + n]))))
    else:
        for i in range(0, len(items), n):
            ch = list(items[i:i + n])
            if callee.endswith('chunks_exact') and len(ch) < n: break
            out.append(m.alloc(VecObj(ch)))
    return Opaque('iter_owned', items=out, idx=0)


@_m(PATH_MODELS, ('slice', 'is_sorted_by'), ('slice', 'is_sorted_by_key'))
def _is_sorted_by(m, q, args, callee):
    raise Unsupported('is_sorted_by: not modelled')


@_m(PATH_MODELS, ('slice', 'split_first'), ('slice', 'split_last'))
def _split_first(m, q, args, callee):
    items, ref = seq_of(m, args[0])
    if not items: return none()
    if callee.endswith('split_first'):
        return some(Agg(None, [elem_ref(ref, 0), m.alloc(VecObj(list(items[1:])))]))
    return some(Agg(None, [elem_ref(ref, len(items) - 1), m.alloc(VecObj(list(items[:-1])))]))


@_m(PATH_MODELS, ('slice', 'to_vec'), ('slice', 'to_owned'))
def _to_vec(m, q, args, callee):
    items, ref = seq_of(m, args[0])
    return VecObj([clone_value(m, x) for x in items])


@_m(PATH_MODELS, ('slice', 'reverse'))
def _reverse(m, q, args, callee):
    items, ref = seq_of(m, args[0]); items.reverse(); return UNIT


@_m(PATH_MODELS, ('slice', 'swap'))
def _slice_swap(m, q, args, callee):
    items, ref = seq_of(m, args[0]); i, j = concrete(args[1].t), concrete(args[2].t)
    if i is None or j is None: raise Unsupported('symbolic swap')
    items[i], items[j] = items[j], items[i]; return UNIT


@_m(PATH_MODELS, ('slice', 'sort_by_key'), ('slice', 'sort_unstable_by'))
def _sort_variants(m, q, args, callee):
    if callee.endswith('sort_unstable_by'):
        raise Unsupported('sort_unstable_by: order of equal elements unspecified')
    raise Unsupported('sort_by_key: not modelled')
