"""Symbolic executor for rustc's textual MIR.

Path exploration is *stateless replay*: a path is identified by its sequence of branch decisions; the
harness is re-executed from the start for every path, following a decision prefix and taking the first
feasible alternative at every new symbolic branch (the others are queued).  This keeps library models
ordinary recursive Python (no state cloning) and makes every path independent (parallelisable).
"""
import re, sys, struct, time
from fractions import Fraction
import z3
from .values import *
from .parser import Program, split_top, split_path, type_head, strip_generics, parse_place

sys.setrecursionlimit(20000)

BUILTIN_ENUMS = {
    'Option': [('None', 0), ('Some', 1)],
    'Result': [('Ok', 0), ('Err', 1)],
    'ControlFlow': [('Continue', 0), ('Break', 1)],
    'Ordering': [('Less', -1), ('Equal', 0), ('Greater', 1)],
}


def f32_from_decimal(s):
    """correctly rounded f32 for a decimal literal"""
    exact = Fraction(s)
    f = float(s)
    try:
        c = struct.unpack('<f', struct.pack('<f', f))[0]
    except OverflowError:
        return float('inf') if f > 0 else float('-inf')
    bits = struct.unpack('<I', struct.pack('<f', c))[0]
    best = c
    for nb in (bits - 1, bits + 1):
        if 0 <= nb <= 0xFFFFFFFF:
            n = struct.unpack('<f', struct.pack('<I', nb))[0]
            if n != n or n in (float('inf'), float('-inf')):
                continue
            dn, db = abs(Fraction(n) - exact), abs(Fraction(best) - exact)
            if dn < db or (dn == db and (nb & 1) == 0):
                best = n
    return best


def fp_const(x, sort):
    if x != x:
        return z3.fpNaN(sort)
    if x == float('inf'):
        return z3.fpPlusInfinity(sort)
    if x == float('-inf'):
        return z3.fpMinusInfinity(sort)
    if sort == F32:
        b = struct.unpack('<I', struct.pack('<f', x))[0]
        return z3.fpBVToFP(z3.BitVecVal(b, 32), F32)
    b = struct.unpack('<Q', struct.pack('<d', x))[0]
    return z3.fpBVToFP(z3.BitVecVal(b, 64), F64)


def fpv32(x):
    return z3.simplify(fp_const(x, F32))


class PathResult:
    __slots__ = ('pc', 'outcome', 'value', 'msg', 'decisions', 'assumes', 'extra')

    def __init__(self, pc, outcome, value=None, msg=None, decisions=None, assumes=None):
        self.pc = pc; self.outcome = outcome; self.value = value; self.msg = msg
        self.decisions = decisions; self.assumes = assumes; self.extra = {}


class Machine:
    def __init__(self, prog, enums=None, overrides=None, feas_timeout_ms=2000, max_blocks=4000,
                 overflow_checks=True, float_rem='exact', feas_mode='relax'):
        self.prog = prog
        self.enums = dict(BUILTIN_ENUMS)
        if enums:
            self.enums.update(enums)
        self.variant_owner = {}
        for e, vs in self.enums.items():
            for v, d in vs:
                self.variant_owner.setdefault(v, []).append(e)
        self.overrides = list(overrides or [])       # [(compiled regex, handler(m, callee, args))]
        from . import models
        self.models = models
        self.resolve_cache = {}
        self.feas_timeout_ms = feas_timeout_ms
        self.max_blocks = max_blocks
        self.overflow_checks = overflow_checks       # False = release semantics (asserts on overflow ignored)
        self.float_rem = float_rem                   # 'exact' | 'uf'
        self.solver = z3.Solver()
        self.solver.set('timeout', feas_timeout_ms)
        from .relax import Relax
        self.feas_mode = feas_mode                   # 'relax': real-arithmetic relaxation (sound pruning) | 'fp': z3 FP theory
        self.relax = Relax()
        self.stats = dict(paths=0, feas_queries=0, feas_unknown=0, blocks=0, calls=0, model_calls=0)
        self.fns_used = {}
        self.models_used = set()
        self.static_cells = {}
        self.lazy_cache = {}
        self.fresh_id = 0
        # per path
        self.pc = []; self.prefix = []; self.trace = []; self.depth = 0; self.work = []
        self.assumes = []
        self.memo_table = {}; self._memo_simp_stack = []

    # ------------------------------------------------------------------ exploration
    def explore(self, harness, max_paths=200000, time_budget=None, prefixes=None):
        """run harness(m) over all feasible decision sequences -> list[PathResult]"""
        results = []
        self.work = [list(p) for p in prefixes] if prefixes is not None else [[]]
        t0 = time.time()
        while self.work:
            if len(results) >= max_paths or (time_budget and time.time() - t0 > time_budget):
                results.append(PathResult([], 'truncated', msg=f'{len(self.work)} prefixes unexplored'))
                break
            prefix = self.work.pop()
            results.append(self.run_path(harness, prefix))
        return results

    def run_path(self, harness, prefix):
        self.pc = []; self.prefix = prefix; self.trace = []; self.depth = 0; self.assumes = []
        self.lazy_cache = {}; self.static_cells = {}
        self.solver.push()
        self.n_axioms = 0          # axioms are re-asserted inside this path's scope
        self.stats['paths'] += 1
        try:
            try:
                v = harness(self)
                r = PathResult(list(self.pc), 'ok', value=v)
            except Panic as e:
                r = PathResult(list(self.pc), 'panic', msg=e.msg)
            except Infeasible:
                r = PathResult(list(self.pc), 'infeasible')
            except Unsupported as e:
                r = PathResult(list(self.pc), 'unsupported', msg=e.msg)
        finally:
            self.solver.pop()
        r.decisions = list(self.trace); r.assumes = list(self.assumes)
        return r

    def memo(self, key, fn):
        """run fn() (a self-contained sub-computation whose only effect is its return value) once per distinct
        sequence of branch decisions; replays of the same decisions reuse a deep copy of the recorded result"""
        import copy
        entry_depth = self.depth
        table = self.memo_table.setdefault((key, tuple(self.trace)), [])
        if entry_depth <= len(self.prefix):
            rest = self.prefix[entry_depth:]
            for dec, val, pcs, simp in table:
                if len(dec) <= len(rest) and rest[:len(dec)] == dec:
                    for c, sc in zip(pcs, simp):
                        self.pc.append(c); self._add(sc)
                    self.trace.extend(dec); self.depth += len(dec)
                    return copy.deepcopy(val)
        pc0 = len(self.pc)
        self._memo_simp_stack.append([])
        try:
            val = fn()
        finally:
            simp = self._memo_simp_stack.pop()
        dec = self.trace[entry_depth:]
        table.append((list(dec), copy.deepcopy(val), list(self.pc[pc0:]), simp))
        return val

    def assume(self, cond):
        """harness-level assumption (precondition); part of the path condition"""
        c = z3.simplify(cond)
        if z3.is_true(c):
            return
        if z3.is_false(c):
            raise Infeasible()
        self.pc.append(cond); self._add(c); self.assumes.append(cond)

    def _rx(self, c):
        if self.feas_mode != 'relax':
            return c
        t = self.relax.b(c)
        if len(self.relax.axioms) > self.n_axioms:
            for a in self.relax.axioms[self.n_axioms:]:
                self.solver.add(a)
            self.n_axioms = len(self.relax.axioms)
        return t

    def _add(self, c):
        for st in self._memo_simp_stack:
            st.append(c)
        self.solver.add(self._rx(c))

    def feasible(self, cond):
        self.stats['feas_queries'] += 1
        r = self.solver.check(self._rx(cond))
        if r == z3.unknown:
            self.stats['feas_unknown'] += 1
        return r != z3.unsat

    def choose(self, conds):
        """pick one of mutually exclusive, jointly exhaustive conditions; forks the exploration"""
        conds = [z3.BoolVal(c) if isinstance(c, bool) else c for c in conds]
        simp = [z3.simplify(c) for c in conds]
        for i, c in enumerate(simp):
            if z3.is_true(c):
                return i
        cand = [i for i, c in enumerate(simp) if not z3.is_false(c)]
        if not cand:
            raise Infeasible()
        k = self.depth; self.depth += 1
        if k < len(self.prefix):
            i = self.prefix[k]
        else:
            feas = [i for i in cand if self.feasible(simp[i])] if len(cand) > 1 else cand
            if not feas:
                raise Infeasible()
            i = feas[0]
            for j in feas[1:]:
                self.work.append(self.trace + [j])
        self.trace.append(i)
        # the raw (unsimplified) condition is recorded so that exported queries share sub-terms with the
        # reference models syntactically (z3's simplifier rewrites a-b into a+(-b) etc.)
        self.pc.append(conds[i]); self._add(simp[i])
        return i

    def branch(self, cond):
        """symbolic bool -> python bool (forks)"""
        return self.choose([cond, z3.Not(cond)]) == 0

    def fresh(self, name, sort):
        self.fresh_id += 1
        return z3.Const(f'{name}!{self.fresh_id}', sort)

    # ------------------------------------------------------------------ memory
    def load(self, ref):
        v = ref.c[ref.k]
        for st in ref.path:
            v = self._step(v, st)
        return v

    def _step(self, v, st):
        k = st[0]
        if k == 'f':
            if isinstance(v, Ref) and st[1] == 0: return v       # Box -> Unique -> NonNull wrappers are transparent
            if isinstance(v, Agg): return v.f[st[1]]
            if isinstance(v, list): return v[st[1]]
            if isinstance(v, VecObj): return v.items[st[1]]
            raise Unsupported(f'field {st[1]} of {v!r}')
        if k == 'v':
            if not isinstance(v, En): raise Unsupported(f'downcast of {v!r}')
            if st[1] not in v.p:
                raise Unsupported(f'downcast to absent variant {st[1]} of {v!r}')
            return v.p[st[1]]
        if k == 'i':
            if isinstance(v, VecObj): return v.items[st[1]]
            if isinstance(v, Agg): return v.f[st[1]]
            raise Unsupported(f'index of {v!r}')
        raise Unsupported(f'step {st}')

    def store(self, ref, val):
        if not ref.path:
            ref.c[ref.k] = val; return
        v = ref.c[ref.k]
        for st in ref.path[:-1]:
            v = self._step(v, st)
        st = ref.path[-1]
        if st[0] in ('f', 'i'):
            if isinstance(v, Agg): v.f[st[1]] = val
            elif isinstance(v, list): v[st[1]] = val
            elif isinstance(v, VecObj): v.items[st[1]] = val
            else: raise Unsupported(f'store into {v!r}')
        else:
            raise Unsupported(f'store step {st}')

    def alloc(self, v):
        return Ref(Cell(v), 0)

    def variant_discr(self, enum_name, variant):
        vs = self.enums.get(enum_name)
        if vs:
            for n, d in vs:
                if n == variant: return d
        owners = self.variant_owner.get(variant, [])
        if len(owners) == 1:
            for n, d in self.enums[owners[0]]:
                if n == variant: return d
        raise Unsupported(f'unknown variant {enum_name}::{variant}')

    def place_ref(self, fr, place):
        local, proj = place
        ref = Ref(fr, local)
        for p in proj:
            k = p[0]
            if k == 'deref':
                v = self.load(ref)
                if isinstance(v, Ref): ref = v
                else: raise Unsupported(f'deref of non-ref {v!r}')
            elif k == 'field':
                ref = Ref(ref.c, ref.k, ref.path + (('f', p[1]),))
            elif k == 'downcast':
                v = self.load(ref)
                if not isinstance(v, En): raise Unsupported(f'downcast of {v!r}')
                ref = Ref(ref.c, ref.k, ref.path + (('v', self.variant_discr(v.name, p[1])),))
            elif k == 'cindex':
                ref = Ref(ref.c, ref.k, ref.path + (('i', p[1]),))
            elif k == 'index':
                idx = fr[p[1]]
                seq = self.load(ref)
                n = len(seq.items) if isinstance(seq, VecObj) else len(seq.f)
                i = self.concretize_index(idx.t, n)
                ref = Ref(ref.c, ref.k, ref.path + (('i', i),))
            else:
                raise Unsupported(f'projection {p}')
        return ref

    def concretize_index(self, t, n):
        c = concrete(t)
        if c is not None:
            if c >= n: raise Unsupported(f'index {c} out of bounds {n} (should be guarded)')
            return c
        conds = [t == z3.BitVecVal(i, t.size()) for i in range(n)] + [z3.UGE(t, z3.BitVecVal(n, t.size()))]
        i = self.choose(conds)
        if i == n:
            raise Panic('index out of bounds')
        return i

    # ------------------------------------------------------------------ constants
    def const(self, s, fn, fr=None):
        s = s.strip()
        if s == 'true': return Sc('bool', z3.BoolVal(True))
        if s == 'false': return Sc('bool', z3.BoolVal(False))
        if s == '()': return UNIT
        m = re.fullmatch(r'(-?\d+)_(\w+)', s)
        if m and m.group(2) in INT_BITS:
            return Sc(m.group(2), z3.BitVecVal(int(m.group(1)), INT_BITS[m.group(2)]))
        m = re.fullmatch(r'([-+]?[\d.]+(?:[eE][-+]?\d+)?)(f32|f64)', s)
        if m:
            if m.group(2) == 'f32':
                return Sc('f32', fpv32(f32_from_decimal(m.group(1))))
            return Sc('f64', z3.simplify(fp_const(float(m.group(1)), F64)))
        m = re.fullmatch(r'([-+])?(inf|NaN)_?(f32|f64)', s, re.I)
        if m:
            x = float('nan') if m.group(2).lower() == 'nan' else float('inf')
            if m.group(1) == '-': x = -x
            return Sc(m.group(3), z3.simplify(fp_const(x, F32 if m.group(3) == 'f32' else F64)))
        if s.startswith('"'):
            return Opaque('str', text=s)
        if s.startswith('ZeroSized: '):
            t = s[11:].strip()
            if t.startswith('{closure@'):
                return Agg(t, [])
            return FnItem(t)
        if s.startswith("'") and s.endswith("'"):
            return Sc('char', z3.BitVecVal(ord(s[1:-1].encode().decode('unicode_escape')), 32))
        m = re.fullmatch(r'\{alloc\d+: &(?:mut )?(.*)\}', s)
        if m:
            name = m.group(1)
            if name not in self.static_cells:
                self.static_cells[name] = Cell(Agg('static:' + type_head(name), []))
            return Ref(self.static_cells[name], 0)
        m = re.search(r'::promoted\[(\d+)\]$', s)
        if m:
            name = fn.name + f'::promoted[{m.group(1)}]'
            pf = self.prog.consts.get(name)
            if pf is None:
                raise Unsupported('promoted not found ' + name)
            return self.call_fn(pf, [])
        r = self.models.const_model(self, s)
        if r is not None:
            return r
        # associated const items defined in the dump: match by suffix
        tail = strip_generics(s)
        segs = split_path(tail)
        for name, val in self.prog.consts.items():
            if isinstance(val, str):
                nsegs = split_path(re.sub(r'<impl at [^>]*>', '<impl>', name))
                if nsegs[-2:] == segs[-2:] or (len(segs) >= 2 and nsegs[-1] == segs[-1] and nsegs[-2] == segs[-2]):
                    return self.const(val[6:], fn)
        # const items with a body in the dump (`const NAME: T = { ... }`, e.g. a const local to a function): by last segment
        last = strip_generics(segs[-1]).strip() if segs else None
        if last and re.fullmatch(r'[A-Z][A-Z0-9_]*', last):
            cands = [val for name, val in self.prog.consts.items() if not isinstance(val, str) and split_path(name)[-1] == last]
            if len(cands) == 1:
                return self.call_fn(cands[0], [])
        # enum unit variants as constants, e.g. Option::<Infallible>::None
        v = self.try_variant(s, [])
        if v is not None:
            return v
        # function items
        return FnItem(s)

    def try_variant(self, path, fields):
        segs = [x for x in split_path(path) if not x.startswith('<')]
        if len(segs) == 1:
            owners = self.variant_owner.get(strip_generics(segs[0]).strip(), [])
            if len(owners) == 1:
                segs = [owners[0], segs[0]]
        if len(segs) >= 2:
            vname = strip_generics(segs[-1]).strip()
            ename = strip_generics(segs[-2]).strip()
            if ename in self.enums:
                for n, d in self.enums[ename]:
                    if n == vname:
                        return En(ename, d, {d: list(fields)})
        return None

    # ------------------------------------------------------------------ operands / rvalues
    def operand(self, fn, fr, op):
        k = op[0]
        if k == 'copy':
            return clone(self.load(self.place_ref(fr, op[1])))
        if k == 'move':
            return self.load(self.place_ref(fr, op[1]))
        return self.const(op[1], fn, fr)

    def rvalue(self, fn, fr, rv, dst_local=None):
        k = rv[0]
        if k == 'use':
            return self.operand(fn, fr, rv[1])
        if k == 'ref':
            return self.place_ref(fr, rv[1])
        if k == 'binop':
            a = self.operand(fn, fr, rv[2]); b = self.operand(fn, fr, rv[3])
            return self.binop(rv[1], a, b)
        if k == 'unop':
            a = self.operand(fn, fr, rv[2])
            return self.unop(rv[1], a)
        if k == 'discriminant':
            v = self.load(self.place_ref(fr, rv[1]))
            if not isinstance(v, En): raise Unsupported(f'discriminant of {v!r}')
            ty = fn.locals.get(dst_local, 'isize') if dst_local is not None else 'isize'
            bits = INT_BITS.get(ty, 64)
            if isinstance(v.d, int):
                return Sc(ty, z3.BitVecVal(v.d, bits))
            d = v.d
            if d.size() > bits: d = z3.Extract(bits - 1, 0, d)
            elif d.size() < bits: d = z3.SignExt(bits - d.size(), d)
            return Sc(ty, d)
        if k == 'cast':
            return self.cast(self.operand(fn, fr, rv[1]), rv[2], rv[3])
        if k == 'tuple':
            return Agg(None, [self.operand(fn, fr, o) for o in rv[1]])
        if k == 'array':
            return Agg('[]', [self.operand(fn, fr, o) for o in rv[1]])
        if k == 'repeat':
            v = self.operand(fn, fr, rv[1])
            n = self.const(rv[2].replace('const ', ''), fn) if not rv[2].isdigit() else usize(int(rv[2]))
            c = concrete(n.t)
            return Agg('[]', [clone(v) for _ in range(c)])
        if k == 'closure':
            return Agg(rv[1], [self.operand(fn, fr, o) for o in rv[2]])
        if k == 'struct':
            vals = [self.operand(fn, fr, o) for _, o in rv[2]]
            ev = self.try_variant(rv[1], vals)
            if ev is not None: return ev
            return Agg(type_head(rv[1]), vals)
        if k == 'ctor':
            vals = [self.operand(fn, fr, o) for o in rv[2]]
            ev = self.try_variant(rv[1], vals)
            if ev is not None: return ev
            return Agg(type_head(rv[1]), vals)
        if k == 'unit':
            if '::' not in rv[1] and dst_local is not None:
                # bare variant name: the enum is the declared type of the destination local
                ety = type_head(fn.locals.get(dst_local, ''))
                if ety in self.enums:
                    for n, d in self.enums[ety]:
                        if n == rv[1].strip(): return En(ety, d, {d: []})
            ev = self.try_variant(rv[1], [])
            if ev is not None: return ev
            return Agg(type_head(rv[1]), [])
        if k == 'len':
            v = self.load(self.place_ref(fr, rv[1]))
            return usize(len(v.items) if isinstance(v, VecObj) else len(v.f))
        raise Unsupported('rvalue ' + str(rv)[:200])

    def binop(self, op, a, b):
        if isinstance(a, Ref) or isinstance(b, Ref):
            # pointer-address arithmetic (rustc's debug alignment / null checks): outside the value model; the result is an
            # unconstrained value that only feeds those checks
            self.stats['ptr_arith'] = self.stats.get('ptr_arith', 0) + 1
            if op in ('Eq', 'Ne', 'Lt', 'Le', 'Gt', 'Ge'):
                return Sc('bool', self.fresh('ptrcmp', z3.BoolSort()))
            return Sc('usize', self.fresh('ptrbits', z3.BitVecSort(64)))
        if not isinstance(a, Sc) or not isinstance(b, Sc):
            raise Unsupported(f'binop {op} on {a!r},{b!r}')
        ty = a.ty; x, y = a.t, b.t
        if ty in ('f32', 'f64'):
            if op == 'Add': return Sc(ty, z3.fpAdd(RNE, x, y))
            if op == 'Sub': return Sc(ty, z3.fpSub(RNE, x, y))
            if op == 'Mul': return Sc(ty, z3.fpMul(RNE, x, y))
            if op == 'Div': return Sc(ty, z3.fpDiv(RNE, x, y))
            if op == 'Rem': return Sc(ty, self.fmod(x, y))
            if op == 'Lt': return Sc('bool', z3.fpLT(x, y))
            if op == 'Le': return Sc('bool', z3.fpLEQ(x, y))
            if op == 'Gt': return Sc('bool', z3.fpGT(x, y))
            if op == 'Ge': return Sc('bool', z3.fpGEQ(x, y))
            if op == 'Eq': return Sc('bool', z3.fpEQ(x, y))
            if op == 'Ne': return Sc('bool', z3.Not(z3.fpEQ(x, y)))
            raise Unsupported('float binop ' + op)
        if ty == 'bool':
            if op == 'BitAnd': return Sc('bool', z3.And(x, y))
            if op == 'BitOr': return Sc('bool', z3.Or(x, y))
            if op == 'BitXor': return Sc('bool', z3.Xor(x, y))
            if op == 'Eq': return Sc('bool', x == y)
            if op == 'Ne': return Sc('bool', x != y)
            raise Unsupported('bool binop ' + op)
        if ty not in INT_BITS:
            raise Unsupported(f'binop {op} on type {ty}')
        bits = INT_BITS[ty]; sg = is_signed(ty)
        if op in ('Shl', 'Shr', 'ShlUnchecked', 'ShrUnchecked'):
            yb = y
            if yb.size() < bits: yb = z3.ZeroExt(bits - yb.size(), yb)
            elif yb.size() > bits: yb = z3.Extract(bits - 1, 0, yb)
            yb = yb & z3.BitVecVal(bits - 1, bits)
            if op.startswith('Shl'): return Sc(ty, x << yb)
            return Sc(ty, (x >> yb) if sg else z3.LShR(x, yb))
        if op in ('Add', 'AddUnchecked'): return Sc(ty, x + y)
        if op in ('Sub', 'SubUnchecked'): return Sc(ty, x - y)
        if op in ('Mul', 'MulUnchecked'): return Sc(ty, x * y)
        if op == 'Div': return Sc(ty, (x / y) if sg else z3.UDiv(x, y))
        if op == 'Rem': return Sc(ty, z3.SRem(x, y) if sg else z3.URem(x, y))
        if op == 'BitAnd': return Sc(ty, x & y)
        if op == 'BitOr': return Sc(ty, x | y)
        if op == 'BitXor': return Sc(ty, x ^ y)
        if op == 'Eq': return Sc('bool', x == y)
        if op == 'Ne': return Sc('bool', x != y)
        if op == 'Lt': return Sc('bool', (x < y) if sg else z3.ULT(x, y))
        if op == 'Le': return Sc('bool', (x <= y) if sg else z3.ULE(x, y))
        if op == 'Gt': return Sc('bool', (x > y) if sg else z3.UGT(x, y))
        if op == 'Ge': return Sc('bool', (x >= y) if sg else z3.UGE(x, y))
        if op in ('AddWithOverflow', 'SubWithOverflow'):
            ext = z3.SignExt if sg else z3.ZeroExt
            xe, ye = ext(1, x), ext(1, y)
            re_ = xe + ye if op[0] == 'A' else xe - ye
            res = (x + y) if op[0] == 'A' else (x - y)
            ovf = ext(1, res) != re_
            return Agg(None, [Sc(ty, res), Sc('bool', ovf)])
        if op == 'MulWithOverflow':
            ext = z3.SignExt if sg else z3.ZeroExt
            re_ = ext(bits, x) * ext(bits, y)
            res = x * y
            return Agg(None, [Sc(ty, res), Sc('bool', ext(bits, res) != re_)])
        if op == 'Cmp':
            lt = (x < y) if sg else z3.ULT(x, y)
            return En('Ordering', z3.If(lt, z3.BitVecVal(-1, 8), z3.If(x == y, z3.BitVecVal(0, 8), z3.BitVecVal(1, 8))))
        raise Unsupported('int binop ' + op)

    def fmod(self, x, y):
        """exact C fmod (Rust `%` on floats)"""
        sort = x.sort()
        if self.float_rem == 'uf':
            f = z3.Function('FMOD' + str(sort.ebits()), sort, sort, sort)
            return f(x, y)
        ax, ay = z3.fpAbs(x), z3.fpAbs(y)
        r = z3.fpRem(ax, ay)
        zero = z3.FPVal(0.0, sort)
        r2 = z3.If(z3.fpLT(r, zero), z3.fpAdd(RNE, r, ay), r)
        # sign of the dividend
        return z3.If(z3.fpIsNegative(x), z3.fpNeg(z3.fpAbs(r2)), z3.fpAbs(r2))

    def unop(self, op, a):
        if op == 'Not':
            if a.ty == 'bool': return Sc('bool', z3.Not(a.t))
            return Sc(a.ty, ~a.t)
        if op == 'Neg':
            if a.ty in ('f32', 'f64'): return Sc(a.ty, z3.fpNeg(a.t))
            return Sc(a.ty, -a.t)
        if op == 'PtrMetadata':
            v = self.load(a) if isinstance(a, Ref) else a
            return usize(len(v.items) if isinstance(v, VecObj) else len(v.f))
        raise Unsupported('unop ' + op)

    def cast(self, v, ty, kind):
        ty = ty.strip()
        if kind.startswith('PointerCoercion') or kind in ('PtrToPtr', 'FnPtrToPtr'):
            return v
        if not isinstance(v, Sc):
            if kind == 'Transmute': return v
            raise Unsupported(f'cast {kind} of {v!r}')
        if kind == 'IntToInt':
            if v.ty == 'bool':
                return Sc(ty, z3.If(v.t, z3.BitVecVal(1, INT_BITS[ty]), z3.BitVecVal(0, INT_BITS[ty])))
            sb, db = INT_BITS[v.ty], INT_BITS[ty]
            if db == sb: return Sc(ty, v.t)
            if db < sb: return Sc(ty, z3.Extract(db - 1, 0, v.t))
            return Sc(ty, (z3.SignExt if is_signed(v.ty) else z3.ZeroExt)(db - sb, v.t))
        if kind == 'IntToFloat':
            sort = F32 if ty == 'f32' else F64
            if is_signed(v.ty): return Sc(ty, z3.fpSignedToFP(RNE, v.t, sort))
            return Sc(ty, z3.fpUnsignedToFP(RNE, v.t, sort))
        if kind == 'FloatToFloat':
            return Sc(ty, z3.fpFPToFP(RNE, v.t, F32 if ty == 'f32' else F64))
        if kind == 'FloatToInt':
            return Sc(ty, self.float_to_int_sat(v.t, ty))
        if kind == 'Transmute':
            if v.ty in ('f32', 'f64') and ty in INT_BITS:
                b = self.fresh('bits', z3.BitVecSort(INT_BITS[ty]))
                self.assume(z3.Or(z3.fpBVToFP(b, v.t.sort()) == v.t))
                return Sc(ty, b)
            if v.ty in INT_BITS and ty in ('f32', 'f64'):
                return Sc(ty, z3.fpBVToFP(v.t, F32 if ty == 'f32' else F64))
        raise Unsupported(f'cast {kind} {v.ty}->{ty}')

    def float_to_int_sat(self, x, ty):
        bits = INT_BITS[ty]; sg = is_signed(ty); sort = x.sort()
        if sg:
            lo, hi = -(1 << (bits - 1)), (1 << (bits - 1)) - 1
            conv = z3.fpToSBV(RTZ, x, z3.BitVecSort(bits))
        else:
            lo, hi = 0, (1 << bits) - 1
            conv = z3.fpToUBV(RTZ, x, z3.BitVecSort(bits))
        # hi+1 = 2^k is exactly representable; x >= 2^k saturates
        hi1 = z3.FPVal(float(hi + 1), sort); lof = z3.FPVal(float(lo), sort)
        return z3.If(z3.fpIsNaN(x), z3.BitVecVal(0, bits),
                     z3.If(z3.fpGEQ(x, hi1), z3.BitVecVal(hi, bits),
                           z3.If(z3.fpLEQ(x, lof) if sg else z3.fpLEQ(x, z3.FPVal(0.0, sort)),
                                 z3.BitVecVal(lo, bits), conv)))

    # ------------------------------------------------------------------ execution
    def call_fn(self, fn, args):
        self.stats['calls'] += 1
        self.fns_used[fn.name] = fn
        fr = {}
        if len(args) != len(fn.args):
            raise Unsupported(f'arity mismatch calling {fn.name}: {len(args)} vs {len(fn.args)}')
        for (idx, _), a in zip(fn.args, args):
            fr[idx] = a
        bb = 'bb0'; nblocks = 0
        blocks = fn.blocks
        while True:
            nblocks += 1
            if nblocks > self.max_blocks:
                raise Unsupported(f'block budget exceeded in {fn.name} (unwinding bound)')
            self.stats['blocks'] += 1
            stmts, term = blocks[bb]
            for st in stmts:
                k = st[0]
                if k == 'assign':
                    place = st[1]
                    val = self.rvalue(fn, fr, st[2], place[0] if not place[1] else None)
                    if not place[1]:
                        fr[place[0]] = val
                    else:
                        self.store(self.place_ref(fr, place), val)
                elif k == 'setdiscr':
                    ref = self.place_ref(fr, st[1]); v = self.load(ref)
                    v.d = st[2]; v.p.setdefault(st[2], [])
                elif k == 'assume':
                    pass
                else:
                    raise Unsupported('statement ' + str(st)[:200])
            k = term[0]
            if k == 'goto':
                bb = term[1]
            elif k == 'return':
                return fr.get(0, UNIT)
            elif k == 'switch':
                v = self.operand(fn, fr, term[1])
                bb = self.switch(v, term[2])
            elif k == 'drop':
                bb = term[1]
            elif k == 'call':
                _, dst, callee, aops, nxt = term
                args2 = [self.operand(fn, fr, o) for o in aops]
                if isinstance(callee, tuple):
                    fv = self.operand(fn, fr, callee[1])
                    r = self.call_value(fv, args2)
                else:
                    r = self.do_call(callee, args2, fn)
                if nxt is None:
                    raise Unsupported('diverging call returned: ' + str(callee))
                if not dst[1]:
                    fr[dst[0]] = r
                else:
                    self.store(self.place_ref(fr, dst), r)
                bb = nxt
            elif k == 'assert':
                _, cop, neg, msg, nxt = term
                c = self.operand(fn, fr, cop).t
                if neg: c = z3.Not(c)
                is_ovf = 'overflow' in msg
                if msg.startswith(('misaligned pointer dereference', 'null pointer dereference')):
                    bb = nxt        # references are valid and aligned by construction in the value model
                elif is_ovf and not self.overflow_checks:
                    bb = nxt        # release profile: wrapping arithmetic, no check
                else:
                    if self.choose([c, z3.Not(c)]) == 1:
                        raise Panic(f'{msg} [{fn.last}]')
                    bb = nxt
            elif k == 'unreachable':
                # rustc asserts this point cannot be reached: only paths whose feasibility query was
                # inconclusive get here; they are infeasible (counted, reported in the evidence)
                self.stats['unreachable'] = self.stats.get('unreachable', 0) + 1
                raise Infeasible()
            elif k == 'resume':
                raise Unsupported('resume')
            else:
                raise Unsupported('terminator ' + str(term)[:200])

    def switch(self, v, targets):
        if not isinstance(v, Sc):
            raise Unsupported(f'switchInt on {v!r}')
        t = v.t
        if v.ty == 'bool':
            conds = []; dests = []
            for val, dest in targets:
                if val is None:
                    conds.append(z3.And([z3.Not(c) for c in conds]) if conds else z3.BoolVal(True))
                else:
                    conds.append(t if val != 0 else z3.Not(t))
                dests.append(dest)
            return dests[self.choose(conds)]
        bits = t.size(); conds = []; dests = []
        for val, dest in targets:
            if val is None:
                conds.append(z3.And([z3.Not(c) for c in conds]) if conds else z3.BoolVal(True))
            else:
                conds.append(t == z3.BitVecVal(val, bits))
            dests.append(dest)
        return dests[self.choose(conds)]

    # ------------------------------------------------------------------ calls
    def call_value(self, fv, args):
        """call a closure value / fn item with positional args"""
        if isinstance(fv, Ref):
            inner = self.load(fv)
            if isinstance(inner, (Agg, FnItem, Opaque)) and not (isinstance(inner, Agg) and not str(inner.name).startswith('{closure')):
                return self._call_closure(inner, fv, args)
            raise Unsupported(f'call of {inner!r}')
        return self._call_closure(fv, None, args)

    def _call_closure(self, cv, ref, args):
        if isinstance(cv, FnItem):
            return self.do_call(cv.name, args, None)
        if isinstance(cv, Opaque) and cv.kind == 'pyfn':
            return cv.fn(self, *args)
        if isinstance(cv, Agg) and str(cv.name).startswith('{closure'):
            f = self.prog.closures.get(cv.name)
            if f is None:
                raise Unsupported('closure body not found: ' + cv.name)
            t0 = f.args[0][1]
            if t0.startswith('&'):
                if ref is None: ref = self.alloc(cv)
                return self.call_fn(f, [ref] + list(args))
            return self.call_fn(f, [cv] + list(args))
        raise Unsupported(f'call of value {cv!r}')

    def rt_type(self, v):
        """run-time type head of a value (through references)"""
        while isinstance(v, Ref):
            v = self.load(v)
        if isinstance(v, Sc): return v.ty
        if isinstance(v, Agg): return v.name
        if isinstance(v, En): return v.name
        if isinstance(v, VecObj): return 'Vec'
        if isinstance(v, Opaque): return v.kind
        if isinstance(v, FnItem): return 'fn'
        return None

    def parse_callee(self, callee):
        """-> (qself_head|None, trait_head|None, method, raw_qself)"""
        c = callee.strip()
        if c.startswith('<'):
            # <QSelf as Trait>::method   (find matching '>')
            depth = 0
            for i, ch in enumerate(c):
                if ch == '<': depth += 1
                elif ch == '>' and c[i - 1] != '-':
                    depth -= 1
                    if depth == 0: break
            inner = c[1:i]; rest = c[i + 1:]
            rest_segs = [s for s in split_path(rest) if s and not s.startswith('<')]
            method = '::'.join(strip_generics(s) for s in rest_segs)
            # split inner at top-level ' as '
            d = 0; pos = -1
            for j in range(len(inner)):
                ch = inner[j]
                if ch in '<([{': d += 1
                elif ch in ')]}': d -= 1
                elif ch == '>' and inner[j - 1] != '-': d -= 1
                elif d == 0 and inner.startswith(' as ', j): pos = j; break
            if pos >= 0:
                q, tr = inner[:pos], inner[pos + 4:]
                return type_head(q), type_head(tr), method, q.strip()
            return type_head(inner), None, method, inner.strip()
        segs = [s for s in split_path(c)]
        segs2 = []
        for s in segs:
            if s.startswith('<impl '):
                h = type_head(s[6:-1])
                segs2.append('slice' if h.startswith('[') else h); continue
            if s.startswith('<'):       # turbofish generics segment
                continue
            segs2.append(strip_generics(s))
        # trailing nested items (fn::{closure#0}) are not called directly
        method = segs2[-1]
        qself = segs2[-2] if len(segs2) >= 2 else None
        return qself, None, method, qself

    def do_call(self, callee, args, caller):
        for rx, h in self.overrides:
            if rx.search(callee):
                r = h(self, callee, args)
                if r is not NotImplemented:
                    return r
        q, tr, method, rawq = self.parse_callee(callee)
        r = self.models.call_model(self, q, tr, method, args, callee)
        if r is not NotImplemented:
            self.stats['model_calls'] += 1
            return r
        f = self.resolve_mir(q, tr, method, args, callee)
        if f is None:
            raise Unsupported(f'no model or MIR body for `{callee}` (rt={self.rt_type(args[0]) if args else None})')
        return self.call_fn(f, args)

    @staticmethod
    def _norm_ty(t):
        t = re.sub(r"&('\w+ )?(mut )?", '', t or '')
        t = re.sub(r'\b(?:\w+::)+', '', t)
        return t.replace(' ', '')

    def resolve_mir(self, q, tr, method, args, callee):
        if '::' in method:
            # nested item of a method, e.g. <EASE_WEB as Deref>::deref::__stability
            inner = method.split('::')[-1]
            cs = [f for f in self.prog.by_last.get(inner, []) if f.owner == q and len(f.args) == len(args)]
            return cs[0] if len(cs) == 1 else None
        cands = self.prog.by_last.get(method, [])
        if not cands:
            return None
        rt = self.rt_type(args[0]) if args else None
        key = (q, tr, method, rt if len(cands) > 1 else None, len(args))
        if key in self.resolve_cache:
            return self.resolve_cache[key]
        best = []; bests = -1
        rawq = None
        if callee.startswith('<') and ' as ' in callee:
            rawq = self._norm_ty(self.parse_callee(callee)[3])
        for f in cands:
            if len(f.args) != len(args): continue
            s = 0
            a0 = type_head(f.args[0][1]) if f.args else None
            if tr is not None:
                if f.impl_trait == tr: s += 4
                elif f.impl_trait == 'derive:' + tr: s += 4
                elif f.impl_trait is not None and not f.impl_trait.startswith('derive:'): s -= 4
            else:
                if f.impl_span is None and q is None: s += 2       # free function
                if f.impl_trait is None: s += 1                    # inherent method preferred for a path call
            if rawq and f.args and '<' in rawq and self._norm_ty(f.args[0][1]) == rawq: s += 4     # same generic instantiation
            if q is not None:
                if f.owner == q and f.impl_trait and f.impl_trait.startswith('derive:'): s += 5     # derive expansion of that very type
                if f.impl_self == q: s += 3
                if a0 == q: s += 2
                if f.impl_span is None and strip_generics(f.name).split('::')[-2:-1] == [q]: s += 2
                if type_head(f.ret) == q: s += 2
                elif q in f.ret: s += 1
            if rt is not None and a0 is not None:
                if a0 == rt: s += 6
                elif f.impl_self == rt: s += 1
                elif a0 in INT_BITS or a0 in ('f32', 'f64', 'bool'): s -= 6      # concrete scalar impl for another type
                elif isinstance(rt, str) and rt[:1].isupper() and a0[:1].isupper() and len(a0) > 2 and a0 not in ('Value', 'Data', 'State', 'Timeline', 'TimelineMap', 'Self'):
                    s -= 5                                                        # method of a different concrete receiver type
            if s > bests: best = [f]; bests = s
            elif s == bests: best.append(f)
        if bests <= 0 or not best:
            r = None
        elif len(best) > 1:
            best2 = self.models.disambiguate(self, tr, method, best, callee)
            if len(best2) != 1:
                raise Unsupported(f'ambiguous callee `{callee}` q={q} tr={tr} rt={rt} score={bests} n={len(best)}: {[b.name[-50:] for b in best][:3]}')
            r = best2[0]
        else:
            r = best[0]
        self.resolve_cache[key] = r
        return r
